#!/bin/sh
# tools/seeded_sweep.sh [log]   (cwd = /verif)
# Applies every confirmed seeded change in turn and runs the quick tier of the check of the property
# it was written against (and of the checks listed as having caught it); prints CAUGHT / MISSED lines.
ROOT="$(cd "$(dirname "$0")/.." && pwd)"
LOG="${1:-/tmp/seeded_sweep.log}"
: > "$LOG"
for d in "$ROOT"/seeded/*/; do
    n="$(basename "$d")"
    [ -f "$d/patch.diff" ] || continue
    ids="$(python3 -c "import json,sys; m=json.load(open('$d/meta.json')); c=m['checks_quick_tier_against_the_change']['caught_by']; p=m['breaks_property']; print(' '.join(dict.fromkeys([p]+c)))")"
    echo "== $n ($ids)" >> "$LOG"
    "$ROOT/tools/try_mutant.sh" "$d/patch.diff" $ids 2>&1 | grep -E "CAUGHT|MISSED|INCONCLUSIVE|does not apply" | cut -c1-160 >> "$LOG"
done
echo DONE >> "$LOG"
