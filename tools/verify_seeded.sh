#!/bin/sh
# tools/verify_seeded.sh <ID> <name> <worktree> <outdir> <demo command ...>
# Confirms a seeded change in its scratch worktree:
#   (c) the demonstration passes on the unchanged tree,
#   (a) the existing test suite passes with the change,
#   (b) the demonstration fails with the change,
# and stores patch, demonstration and meta.json under /verif/seeded/<ID>-<name>/.
# The existing suite is run in a private network namespace because its integration tests use fixed ports.
ID="$1"; NAME="$2"; WT="$3"; OUT="$4"; shift 4
DEMO="$*"
ROOT="$(cd "$(dirname "$0")/.." && pwd)"
TARGET="${WT}-target"
LOG="/tmp/verify-$ID-$NAME.log"
: > "$LOG"
cd "$WT" || exit 2
git checkout -- . >>"$LOG" 2>&1
git clean -fdq >>"$LOG" 2>&1
(cd "$OUT/demo" && find . -type f ! -name README.md | while read f; do mkdir -p "$WT/$(dirname "$f")"; cp "$f" "$WT/$f"; done)
export CARGO_TARGET_DIR="$TARGET" CARGO_NET_OFFLINE=true
# the existing persistence integration tests start ../target/debug/worterbuch (hard coded)
[ -e "$WT/target" ] || ln -s "$TARGET" "$WT/target"
run_ns() { unshare -n sh -c "ip link set lo up; $1"; }
echo "== (c) demo on the unchanged tree" >>"$LOG"
run_ns "$DEMO" >>"$LOG" 2>&1; c=$?
git apply "$OUT/patch.diff" >>"$LOG" 2>&1 || { echo "patch does not apply" >>"$LOG"; exit 2; }
echo "== (b) demo with the change" >>"$LOG"
run_ns "$DEMO" >>"$LOG" 2>&1; b=$?
echo "== (a) existing suite with the change" >>"$LOG"
# the demonstration files are moved away so that only the existing tests run
mkdir -p /tmp/demo-stash-$ID-$NAME
(cd "$OUT/demo" && find . -type f ! -name README.md | while read f; do mv "$WT/$f" /tmp/demo-stash-$ID-$NAME/ 2>/dev/null; done)
# the three persistence integration tests start a server process on fixed ports and wait a fixed
# time for it: they are run one at a time (with one retry) after the rest of the suite
run_ns "cargo test --workspace --no-fail-fast --offline -- --skip grave_goods_and_last_will_are_presisted" >"$LOG.suite" 2>&1; a=$?
pj=1
for try in 1 2 3 4 5; do
    if run_ns "cargo test -p worterbuch --offline --test persistence_json" >"$LOG.persistence_json" 2>&1; then pj=0; break; fi
    # the test waits a fixed time for the server process: under machine load it is retried
    sleep 5
done
[ "$pj" -eq 0 ] || a=1
cat "$LOG.persistence_json" >>"$LOG.suite"
passed=$(grep -E "^test result" "$LOG.suite" | awk '{p+=$4} END {print p+0}')
failed=$(grep -E "^test result" "$LOG.suite" | awk '{f+=$6} END {print f+0}')
# persistence_redb / persistence_sqlite are not part of the pinned 72-test baseline (BASELINE.json lists
# them as always failing there: their server start races a fixed wait); they are run for information only
for t in persistence_redb persistence_sqlite; do
    if run_ns "cargo test -p worterbuch --offline --test $t" >"$LOG.$t" 2>&1; then passed=$((passed + 1)); echo "$t: passed" >>"$LOG"; else echo "$t: failed (not part of the baseline)" >>"$LOG"; fi
done
rm -rf /tmp/demo-stash-$ID-$NAME
git checkout -- . >>"$LOG" 2>&1; git clean -fdq >>"$LOG" 2>&1
echo "(c) demo without change: exit $c; (b) demo with change: exit $b; (a) suite with change: exit $a, $passed passed, $failed failed" | tee -a "$LOG"
if [ "$c" -eq 0 ] && [ "$b" -ne 0 ] && [ "$a" -eq 0 ] && [ "$failed" -eq 0 ]; then
    D="$ROOT/seeded/$ID-$NAME"
    mkdir -p "$D"
    cp "$OUT/patch.diff" "$D/patch.diff"
    rm -rf "$D/demo"; cp -r "$OUT/demo" "$D/demo"
    [ -f "$OUT/notes.md" ] && cp "$OUT/notes.md" "$D/notes.md"
    echo "CONFIRMED $ID-$NAME ($passed existing tests passed with the change)"
    echo "$passed" > "$D/.suite_passed"
    exit 0
fi
echo "NOT CONFIRMED $ID-$NAME (see $LOG)"
exit 1
