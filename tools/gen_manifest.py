#!/usr/bin/env python3
"""Regenerates /verif/MANIFEST.json from the table below (run from anywhere)."""
import json, os, subprocess

ROOT = os.path.dirname(os.path.dirname(os.path.abspath(__file__)))

def repo_commits():
    out = subprocess.run(["git", "-C", "/repo", "log", "--format=%h %s"], capture_output=True, text=True).stdout
    hooks = []
    for line in out.splitlines():
        h, s = line.split(" ", 1)
        if "verif feature" in s or s.startswith("Add verif") or "behind the verif" in s:
            hooks.append(h)
    return list(reversed(hooks))

# id -> (engine, level category, level text, level note, technique, design section)
CHECKS = {
    "C01": (
        "core",
        "exploration",
        "Model-based generated search: every request sequence up to length 4 (thorough: 5) over a 21-request alphabet is enumerated and tens of thousands of seeded random histories are run against the real core type; after every request the answer, the complete read-back (pget #, cget, ls of every prefix ever used, entry count) and the events of a catch-all subscriber are compared with a flat reference map. Exhaustive only for the stated small alphabet, sampled beyond; no absence claim.",
        "Trusts the reference model (harness/src/model.rs, ~450 lines, written from README/specification/property text) and that driving worterbuch::verif::Worterbuch directly is what the server task does per request (lib.rs process_api_call is a 1:1 dispatch). Verdicts are only predicted where C02/C04/C08 pin them.",
        "property-based testing: exhaustive small-scope enumeration + proptest random histories against a reference model (full read-back oracle)",
        "DESIGN.md §5 C01",
    ),
}

NOT_YET = "check not built yet in this round of the build phase (work in progress, see DESIGN.md §5)"

def main():
    props = [json.loads(l) for l in open(os.path.join(ROOT, "properties.jsonl"))]
    checks = []
    na = []
    for p in props:
        pid = p["id"]
        if pid in CHECKS:
            engine, cat, text, note, tech, ref = CHECKS[pid]
            checks.append({
                "property_id": pid,
                "quick_cmd": f"./check {pid} quick",
                "thorough_cmd": f"./check {pid} thorough",
                "evidence_file": f"/verif/evidence/{pid}.json",
                "replay_cmd_template": f"./harness/target/verif/wbverif replay {pid} {{path}}",
                "engine": engine,
                "level_claimed": {"category": cat, "text": text, "design_ref": ref},
                "level_note": note,
                "technique": tech,
            })
        else:
            na.append({"property_id": pid, "reason": NOT_YET})
    manifest = {
        "version": 1,
        "setup_cmd": "cd /verif/harness && CARGO_NET_OFFLINE=true cargo build --offline --profile verif",
        "hooks": {
            "guard": "cargo feature `verif` (crate worterbuch; off by default, enabled only by /verif/harness/Cargo.toml)",
            "enable": "the harness crate depends on /repo/worterbuch by path with features [\"redb\", \"verif\"]; every ./check run does `cargo build --offline --profile verif` in /verif/harness, which rebuilds the repository crates from /repo's working tree",
            "baseline_off_cmd": "cd /repo && (cargo nextest run --workspace --no-fail-fast --offline || cargo test --workspace --no-fail-fast --offline)",
            "source_commits": repo_commits(),
            "add_only": True,
        },
        "engines": [
            {"name": "core", "path": "harness/src/interp.rs", "serves_properties": ["C01"], "kind_free_text": "direct calls on worterbuch::verif::Worterbuch in a current-thread tokio runtime, receivers drained after every request, compared with harness/src/model.rs"},
        ],
        "checks": checks,
        "not_applicable": na,
        "notes": "One binary (harness/target/verif/wbverif) serves all checks: `wbverif check <ID> --tier quick|thorough`, seeds from VERIF_SEED. Exit 2 = inconclusive (build failure / watchdog), never a violation. Known findings: /verif/known_findings.json.",
    }
    json.dump(manifest, open(os.path.join(ROOT, "MANIFEST.json"), "w"), indent=1)
    print("MANIFEST.json written:", len(checks), "checks,", len(na), "not applicable")

if __name__ == "__main__":
    main()
