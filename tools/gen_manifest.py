#!/usr/bin/env python3
"""Regenerates /verif/MANIFEST.json from the table below (run from anywhere)."""
import json, os, subprocess

ROOT = os.path.dirname(os.path.dirname(os.path.abspath(__file__)))

def repo_commits():
    out = subprocess.run(["git", "-C", "/repo", "log", "--format=%h %s"], capture_output=True, text=True).stdout
    hooks = []
    for line in out.splitlines():
        h, s = line.split(" ", 1)
        if "verif feature" in s or s.startswith("Add verif") or "behind the verif" in s:
            hooks.append(h)
    return list(reversed(hooks))

# id -> (engine, level category, level text, level note, technique, design section)
CHECKS = {
    "C01": (
        "core",
        "exploration",
        "Model-based generated search: every request sequence up to length 4 (thorough: 5) over a 21-request alphabet is enumerated and tens of thousands of seeded random histories are run against the real core type; after every request the answer, the complete read-back (pget #, cget, ls of every prefix ever used, entry count) and the events of a catch-all subscriber are compared with a flat reference map. Exhaustive only for the stated small alphabet, sampled beyond; no absence claim.",
        "Trusts the reference model (harness/src/model.rs, ~450 lines, written from README/specification/property text) and that driving worterbuch::verif::Worterbuch directly is what the server task does per request (lib.rs process_api_call is a 1:1 dispatch). Verdicts are only predicted where C02/C04/C08 pin them.",
        "property-based testing: exhaustive small-scope enumeration + proptest random histories against a reference model (full read-back oracle)",
        "DESIGN.md §5 C01",
    ),
    "C02": (
        "core+api",
        "exploration",
        "Schedule-owning generated search with a model-free oracle: all 70 interleavings of 2 clients x 2 cget/cset cycles and all 90 of 3 clients x 1 cycle, for every choice of carried version, three initial states and two value regimes (every write a unique value / every write the value the key already holds; 142 080 cases, exhaustive for that scope), plus 800 k random programs/interleavings quick (u64-boundary versions, set, delete, two keys, a quarter of the writes value-preserving); every mutating request is bracketed by the harness' own cget and checked against the statement's decision table, then history invariants (one winner per version, versions never go back, final value). Atomicity of a request is validated by 240 (thorough: 600) multi-threaded counter runs through the whole in-process server, and the client library's own update() retry loop by 64 (thorough: 300) runs of 2-4 worterbuch-client connections over the unix socket incrementing one counter.",
        "The harness owns the schedule only at request granularity on the direct core; interleavings inside the server are sampled by the threaded part (thread schedules are not seedable). Carried version u64::MAX is excluded (D17).",
        "property-based testing: exhaustive interleaving enumeration + proptest programs/schedules with a decision-table + history-invariant oracle; threaded stress validation",
        "DESIGN.md §5 C02",
    ),
    "C03": (
        "core+wire",
        "exploration",
        "Model-based random histories (60 k quick) of writes interleaved with subscribe/psubscribe (all unique x live-only combinations), unsubscribe and session ends by up to 3 clients; every receiver is drained after every request and compared with the model's expected events per subscription and key (sequence per key), snapshots are compared on subscribe, ended subscriptions must stay silent, and snapshot folded with events must equal pget(pattern) after every request. Wire part (3 000 cases quick): 2-3 TCP / unix socket sessions on the whole in-process server write, subscribe, psubscribe, unsubscribe and leave; every subscription must receive exactly the snapshot and events the model predicts per request (per-key sequences), ended subscriptions stay silent. Sampled, no absence claim.",
        "Event order across requests is fixed by construction (drain after each request); the wire part reaches the per-subscription forwarding tasks of a socket session; there an event counts as missing only after >= 100 later answered requests of the same session over >= 10 s, and the server's own $SYS events are not modelled. Known finding D3 (K/# vs K) is tolerated only on exactly that shape.",
        "property-based testing: proptest random histories against a reference model of subscriptions (per-request event multiset/sequence oracle + fold == pget metamorphic check)",
        "DESIGN.md §5 C03",
    ),
    "C04": (
        "core",
        "exploration",
        "Exhaustive differential check of the three matchers against each other and against the documented relation: all 779 patterns over {a,b,'',?,#} of depth <= 4 (thorough: 5) x all 362 keys over {a,b,''} of depth <= 5 (282 k pairs), each on a fresh core: pget contains k <=> pdelete removes k <=> live subscriber notified <=> documented relation; misplaced # rejected by all three; auth matcher equal to the relation; the same for 12 k cases in which another client's subscription coexists in the subscriber tree (alive or already ended), enumerated over {a,?,#} to depth 3; plus 600 k random unicode/long-segment pairs with 0-2 such bystanders. Exhaustive for the stated alphabet and depth, which covers every branch of the recursive matchers.",
        "The documented relation is taken from README.md ('key starts with my/key/') and specification.md; the empty string is excluded as key and as pattern (the server refuses the empty key). D3 (K/# vs K) is a listed known finding pinned by existing tests.",
        "property-based testing: exhaustive enumeration + proptest pairs, 3-way differential against a documented-relation oracle",
        "DESIGN.md §5 C04",
    ),
    "C05": (
        "core",
        "exploration",
        "Model-based random histories (60 k quick) of set/cset (accepted and rejected)/delete/pdelete/import with ls-subscriptions on existing, missing and root parents at every position; after every request ls of every prefix ever used, pls of generated patterns, and for every ls-subscription: last delivered list == current child set, and a list was delivered whenever the set changed.",
        "Lists are compared as sorted lists (duplicates fail). D7 (import sends no ls notification) is a listed known finding tolerated only for import requests.",
        "property-based testing: proptest random histories against a reference model (child-set oracle, last-list invariant)",
        "DESIGN.md §5 C05",
    ),
    "C06": (
        "core+wire",
        "exploration",
        "Every sequence of length <= 5 (thorough: 6) over lock/acquire/release/disconnect by 3 clients on one key (271 k sequences, exhaustive for that scope) plus 100 k random histories with 4 clients and nested keys; after every request the answer, the state (pending/granted/cancelled) of every outstanding acquire request and the one-holder invariant (clients told they hold the key == model holder, at most one) are checked. Wire part (2 100 cases quick): 2-4 TCP / unix socket sessions lock, acquireLock, releaseLock and end for generated reasons; answers, the acknowledgement of waiting acquireLock requests exactly at the model's hand-over (nothing unrequested in a session's inbox after one more round trip), and the free locks after every session end are compared with the lock-queue model.",
        "Release by a client that is currently waiting is not generated (statement silent). The harness owns the schedule at request granularity.",
        "property-based testing: exhaustive small-scope enumeration + proptest histories against a lock-queue reference model with a one-holder invariant",
        "DESIGN.md §5 C06",
    ),
    "C07": (
        "core+wire",
        "exploration",
        "Model-based histories (120 k free-form + 120 k structured scenarios quick) of up to 4 clients registering overlapping grave goods / last wills (CAS, buried, $SYS and invalid targets), subscribing, locking, opening publish streams and leaving in generated order; after every request the whole store incl. $SYS, all remaining subscriptions' events (bury before will per key), ls lists, locks and pending acquires are compared with the model's session-end procedure. Wire part (3 000 cases quick): 2-4 sessions on the TCP and unix-socket endpoints of the whole in-process server register, lock and end for nine reasons (close, half close, reset, not JSON, unknown message, null, invalid UTF-8, unsupported protocol version, refused authorization); a standing observer session compares user keys, CAS versions, the $SYS/clients subtree, its # subscription's events up to a marker, lock hand-overs and free locks with the model after every session end.",
        "Core parts: session end = the core's `disconnected` call. Wire part: the end of a session counts as processed when the client's own $SYS entries are gone (polled); a harness-side answer timeout is inconclusive; the websocket transport is not driven. Last wills aimed at the leaving client's own $SYS entries and ill-typed registrations (D8) are excluded by construction and counted.",
        "property-based testing: proptest random + structured histories against a reference model of the session-end procedure (full read-back + event oracle)",
        "DESIGN.md §5 C07",
    ),
    "C08": (
        "core",
        "exploration",
        "A table of 9 request kinds x 55 literal/wildcard key shapes that can reach $SYS (495 single-request cases, enumerated) plus 60 k random histories with 60 % $SYS-shaped keys/patterns: requests on protected keys must be rejected, the full store incl. $SYS must equal the model, and a catch-all subscriber must see no event on a protected key caused by a client.",
        "Extended monitoring is off so the model reproduces the server's own $SYS bookkeeping. Known findings D5/D5b (first-segment wildcards in pdelete / grave goods) and D6 (publish) are tolerated only on exactly those shapes.",
        "property-based testing: enumerated request/key-shape table + proptest histories against a reference model with $SYS attribution",
        "DESIGN.md §5 C08",
    ),
    "C09": (
        "core+persist",
        "exploration",
        "Round-trip search through the real flush procedure and the real loader chain: 12 k (thorough 400 k) generated directories - 1-3 snapshots of 0-6 entries (nested JSON with raw-bit floats, format colliders, u64-boundary CAS versions) and 0-3 clients' registrations, in layout v3 (real flush), v2 and v1 (laid out by the harness in the names/formats those loaders read; both selector states; other slot empty or older) - loaded into a fresh core whose full read-back (values, kinds, versions, ls structure, entry count, nothing under $SYS) must equal the last snapshot with its registrations applied. A second part includes the trigger shapes of listed known findings.",
        "v2/v1 directory layouts are reconstructed from the loaders (no writer for them exists any more). Registrations whose result depends on the order of clients are not generated. D10 ({\"Cas\":[v,n]} plain value) is a listed known finding.",
        "property-based testing: proptest round-trip (flush -> load) against a reference model, differential over three on-disk layouts",
        "DESIGN.md §5 C09",
    ),
    "C10": (
        "core+persist+crash hook+process",
        "fault_enumeration",
        "Fault enumeration over the flush procedure: every crash point (22: each file-system step of a flush incl. slot invalidation and selector move; *.tmp files additionally torn) of every flush in histories of 1-4 (thorough 5) flushes of pairwise distinct states with distinct registrations, x 4 follow-ups (restart, restart twice, restart+flush+restart, restart+crash again+restart) - 456 enumerated crash runs - plus 3 k random crash/restart/flush histories. After every restart the served state must be the last completed snapshot or the in-progress one (each with its own registrations applied) and repeated restarts must be idempotent. Process part (96 cases quick): a real server process in JSON mode (flush interval 1 s) is written to by one client who pauses > 1 s in the middle, is stopped by SIGKILL at a sampled time / after a generated answer or by SIGTERM, and a second process must serve the state after some prefix of the changes with that prefix's registrations applied, never a mix or a partial state (after a clean stop as well: C10 promises the last completed flush or the one in progress) - this reaches the periodic task and the shutdown sequence that call the flush procedure.",
        "Process-crash model of the property: a crash = early return at a crash point (cargo feature verif) between two file operations; completed operations persist in order; only *.tmp can be torn. The list of crash points is taken from the trace of an undisturbed flush, so a new file operation without a crash point is not covered automatically. In the process part kill positions are sampled by wall-clock time.",
        "fault injection with exhaustive crash-point enumeration + proptest crash/restart histories, oracle = 'last completed or in progress' over reference-model snapshots",
        "DESIGN.md §5 C10",
    ),
    "C11": (
        "cluster",
        "exploration",
        "Differential generated search on a real in-process cluster: a leader driven through its public API by generated histories (writes, rejected requests, imports, registrations, session ends by 3 clients) with 1-2 followers joining over the real TCP sync port at generated positions; at generated quiescent points (marker written on the leader and polled on the follower) every user key's value and CAS version and the connected clients' registrations must be identical on follower and leader; finally all 11 kinds of direct writes to a follower must be answered NotLeader without effect. 600 clusters quick, 25 k thorough.",
        "Quiescence never relies on waiting, only on the marker travelling the same ordered channel (30 s budget, expiry drops the case). Three listed known findings (D12a/b/c) are tolerated only on exactly the keys they explain (pre-join registrations, keys touched by a session end's grave goods / last will, imported CAS entries); their triggers are excluded from the main generator and counted.",
        "property-based testing: proptest histories with a leader-vs-follower differential oracle at marker-established quiescent points",
        "DESIGN.md §5 C11",
    ),
    "C12": (
        "cluster+persist",
        "exploration",
        "Generated leader histories with a follower joining at a generated position; at a quiescent point the leader is lost, the follower is stopped gracefully and a new server is started on the follower's data directory - all three configured exactly as the server binary configures itself for the command lines the real orchestrator binary uses in leader and follower mode (captured once per run through a stub executable, parsed with the server's own clap definition, given to Config::new with a clean environment). The promoted node's user keys (value, version) must equal the follower's keys with the grave goods buried and last wills set of all clients that were connected to the old leader. 400 promotions quick, 13 k thorough.",
        "Servers run in process; the orchestrator process is only used to obtain the role command lines (sync port, leader address, instance name, data directory and endpoints are substituted); the follower's graceful stop stands for the orchestrator's SIGTERM. Registrations whose result depends on the order of clients are dropped. D12a (pre-join registrations never reach the follower) is a listed known finding.",
        "property-based testing: proptest histories + fault (leader loss) with a reference-model oracle over the follower's state at the loss",
        "DESIGN.md §5 C12",
    ),
    "C13": (
        "wire",
        "exploration",
        "Generated pipelined sessions against the whole in-process server over its unix socket: 1-4 concurrent sessions (v1, 20 % v0) each writing 1-25 requests of every message kind in one burst with non-monotonic ids up to u64::MAX and valid/invalid arguments, closed by a sentinel request. For every request exactly one terminal answer with its id and of the kind the protocol assigns (or err with the predicted errorCode; full predicted content on the session's private key space) must have arrived; events only carry ids of acknowledged subscriptions and come after the ack; no foreign ids; the session is still open at the sentinel. Two further parts: a TCP client that reads late and in small pieces (back pressure: partial socket writes), and 1 500 cases of 2-3 concurrent sessions contending for two locks (acquireLock not waited for, releases by sessions that only wait, everything released at the end) where every request must end up with exactly one answer.",
        "Answers are predicted only for the private key space of a session and for protected/empty keys; in the shared area only the answer kind is checked. Handshake messages are outside the domain. A 20 s per-session budget that expires drops the case (counted as inconclusive).",
        "property-based testing: proptest session scripts against an answer-table + reference-model oracle over a real socket",
        "DESIGN.md §5 C13",
    ),
    "C14": (
        "serde",
        "exploration",
        "Round-trip search over all 23 client message variants, 8 server message variants and the cluster sync messages (Init + 4 Mut) with generated fields (u64 / 2^53 boundary ids and versions, empty/unicode/wildcard/line-break strings, optional fields present/absent, nested JSON with raw-bit doubles and envelope-colliding object keys): encoding is a single line, decode(encode(m)) == m, encode(decode(encode(m))) == encode(m). 300 k messages quick, 10 M thorough, plus a coverage-guided libFuzzer target in thorough.",
        "Encoding/decoding = serde_json::to_string/from_str on the public types, which is what every transport does; sync messages are built from JSON (no public constructor) and compared structurally and as re-encoded JSON values because their maps have no stable iteration order.",
        "property-based testing: proptest round-trip / idempotence oracle (+ libFuzzer round-trip target)",
        "DESIGN.md §5 C14",
    ),
    "C15": (
        "core+wire",
        "exploration",
        "Two generated searches: (1) exhaustive containment - all 115 600 (grant, request) pairs of patterns over {a,ab,?,#} up to depth 4 (ab is a string extension of a, so segment boundaries matter): whenever the authorization matcher accepts the request for the grant, every key over {a,ab} up to depth 5 selected by the request must be selected by the grant; (2) 3 k (thorough 150 k) sessions against a server with an HS256 key: harness-minted tokens (valid/expired/wrong secret/garbage/none) with generated grant lists, 1-15 requests over 17 request kinds, an unrestricted observer reads the store around every request: nothing served/changed before a valid token, served => covered for the right privilege, refused => err 14 and no effect.",
        "'Covered' is decided over a finite key universe (keys over {a,ab,c} to depth 4 + some $SYS keys) with the most permissive matching relation on both sides, so it can miss but not falsely accuse. Refusing a covered request is not a violation.",
        "property-based testing: exhaustive pattern-pair enumeration + proptest sessions with a containment / observer oracle",
        "DESIGN.md §5 C15",
    ),
    "C16": (
        "core (paused clock) + wire",
        "exploration",
        "Timing is explored deterministically: the real aggregator runs on tokio's paused clock, 30 k (thorough 1 M) generated event schedules (bursts, repeats of a key and set/delete alternations inside one interval, gaps around the interval) are fed at exact virtual instants; per key the emitted sequence must equal the fed one and every event must be emitted within the interval. Content is checked independently of timing on 1.5 k live sessions with a plain and an aggregated subscription of the same pattern, read until a marker arrived on both.",
        "The delay bound is asserted with a client channel that always has capacity (the property's 'once the client connection can take it'). The live part asserts only timing-independent facts.",
        "property-based testing: proptest schedules on a virtual clock (delay bound + sequence-equality oracle) and differential plain-vs-aggregated subscription on a live session",
        "DESIGN.md §5 C16",
    ),
    "C17": (
        "wire",
        "exploration",
        "Grammar- and mutation-based hostile sessions against the whole in-process server (debug assertions and overflow checks on): 1-30 lines per case - valid messages of every kind with absurd fields, byte-level mutations of them, arbitrary JSON, special lines (wrong types, invalid UTF-8, 1000-fold nesting, 1 MiB values/garbage, 1500-segment keys), protocol switches - interleaved with witness round trips whose every answer and event content is checked, a brand-new client at the end, no panic on any server task, clean stop. 3 k cases quick.",
        "Hostile sessions always read their socket (slow-reader back-pressure is behaviour, not input). The witness starts a round trip only after all hostile sessions reached a quiescent point and uses fresh keys, so legitimate effects of hostile input cannot fail it. Key depth is limited in process (16 MB harness stack).",
        "fuzzing / property-based testing: grammar + mutation generated sessions with a witness-session oracle and panic detection (+ libFuzzer session target in thorough)",
        "DESIGN.md §5 C17",
    ),
    "C18": (
        "process",
        "fault_enumeration",
        "Crash sampling against a real server process with the ReDB backend: 550 (thorough 38 k) generated bursts of 1-40 pipelined requests (set, cset, delete, pdelete, registrations and their withdrawal) by one client on keys that include first segments which merely start like $SYS ($SYSx, $SYS-b), stopped by SIGKILL right after a generated answer was read, SIGKILL after a 0-5 ms pause, or SIGTERM; a second process on the same directory is read back (value, kind, CAS version of every user key) and must equal the state after some prefix of the sequence of single-key changes with that prefix's registrations applied - the whole sequence after a clean stop. The fraction of real cuts (an acknowledged change missing) is measured and reported (~25 %).",
        "Cuts depend on the background writer's timing and cannot be enumerated; they are sampled (level fault_enumeration refers to the enumerated stop kinds x generated positions, not to every cut). After a kill only the existence of an explaining prefix is required. One client only, so applied order = request order; the order inside a pdelete is taken from its answer.",
        "fault injection (SIGKILL/SIGTERM of a real process at generated points) + proptest request bursts with a prefix-consistency oracle over a reference model",
        "DESIGN.md §5 C18",
    ),
    "C19": (
        "election (black box)",
        "exploration",
        "Generated peer scripts against the real worterbuch-cluster-orchestrator process (rebuilt from /repo), a stub server executable that logs its command line, and scripted peers on loopback UDP sockets: cluster sizes 1-7, configured quorum absent or 1-7, own priority, per peer silent / single / duplicate / late / unsolicited votes, competing candidates of lower/equal/higher priority with or without heartbeat (at a generated time, or reacting to every vote request of the node so that its rounds are abandoned rather than timed out; a fifth of the cases are structured that way with fewer voters than the quorum needs), acknowledged or ignored heartbeats, votes and heartbeats of a non-member. A --leader start requires that by then >= quorum-1 distinct configured peers had sent a vote in answer to a vote request; a --follower start must point to the sync address of a configured peer that had announced itself. 160 runs quick, 6 k thorough.",
        "Wall clock and real UDP: only safety is asserted and only 'sent so far' sets are used, so scheduling delays can only make the oracle more permissive; the set of valid voters is cumulative over the rounds of a run (vote responses carry no round number), so votes of *different* peers from different rounds are not told apart. 'Unsolicited' = sent before the node's minimum election timeout can have expired. The in-process variant on stepped virtual time described in DESIGN.md was not built (see DESIGN.md §5 C19).",
        "property-based testing / fuzzing of a protocol participant: proptest peer scripts against the real process with a quorum/membership safety invariant over the observed command lines",
        "DESIGN.md §5 C19",
    ),
    "C20": (
        "client",
        "exploration",
        "Four generated searches through the real worterbuch-client: (1) send buffer on tokio's paused clock through local_client_wrapper around a recording API - 20 k (thorough 400 k) schedules of set_later/publish_later around the delay: everything sent was handed in with that kind, per (kind,key) the sent values are a subsequence of the handed-in ones ending with the latest; (2) 1.5 k single-task sequences of the typed API against the reference model, subscriptions made with the awaited and with the fire-and-forget subscribe calls, every one of the four unsubscribe calls judged on the raw server stream after a barrier and on the server's own API; (3) 40 (thorough 1000) pairing runs with 8-32 tasks on cloned handles on a 4-thread runtime, values encode their key and per-task private keys give exact expectations.",
        "Thread schedules of the pairing part are not seedable (only the generated calls are); close() of a local client wrapper deadlocks by construction and is not called. The unsubscribe oracle does not rely on timing.",
        "property-based testing: proptest schedules on a virtual clock (subsequence / latest-value oracle), model-based API sequences, concurrent pairing stress with key-encoding values",
        "DESIGN.md §5 C20",
    ),
}

NOT_YET = "check not built yet in this round of the build phase (work in progress, see DESIGN.md §5)"

def main():
    props = [json.loads(l) for l in open(os.path.join(ROOT, "properties.jsonl"))]
    checks = []
    na = []
    for p in props:
        pid = p["id"]
        if pid in CHECKS:
            engine, cat, text, note, tech, ref = CHECKS[pid]
            checks.append({
                "property_id": pid,
                "quick_cmd": f"./check {pid} quick",
                "thorough_cmd": f"./check {pid} thorough",
                "evidence_file": f"/verif/evidence/{pid}.json",
                "replay_cmd_template": f"./harness/target/verif/wbverif replay {pid} {{path}}",
                "engine": engine,
                "level_claimed": {"category": cat, "text": text, "design_ref": ref},
                "level_note": note,
                "technique": tech,
            })
        else:
            na.append({"property_id": pid, "reason": NOT_YET})
    manifest = {
        "version": 1,
        "setup_cmd": "cd /verif/harness && CARGO_NET_OFFLINE=true cargo build --offline --profile verif && cd /repo && CARGO_NET_OFFLINE=true CARGO_TARGET_DIR=/verif/harness/target/repo cargo build --offline -p worterbuch-cluster-orchestrator --no-default-features",
        "hooks": {
            "guard": "cargo feature `verif` (crate worterbuch; off by default, enabled only by /verif/harness/Cargo.toml)",
            "enable": "the harness crate depends on /repo/worterbuch by path with features [\"redb\", \"verif\"]; every ./check run does `cargo build --offline --profile verif` in /verif/harness, which rebuilds the repository crates from /repo's working tree",
            "baseline_off_cmd": "cd /repo && (cargo nextest run --workspace --no-fail-fast --offline || cargo test --workspace --no-fail-fast --offline)",
            "source_commits": repo_commits(),
            "add_only": True,
        },
        "engines": [
            {"name": "core", "path": "harness/src/interp.rs", "serves_properties": ["C01", "C02", "C03", "C04", "C05", "C06", "C07", "C08"], "kind_free_text": "direct calls on worterbuch::verif::Worterbuch in a current-thread tokio runtime, receivers drained after every request, compared with harness/src/model.rs"},
        ],
        "checks": checks,
        "not_applicable": na,
        "notes": "One binary (harness/target/verif/wbverif) serves all checks: `wbverif check <ID> --tier quick|thorough`, seeds from VERIF_SEED. Exit 2 = inconclusive (build failure / watchdog), never a violation. Known findings: /verif/known_findings.json.",
    }
    json.dump(manifest, open(os.path.join(ROOT, "MANIFEST.json"), "w"), indent=1)
    print("MANIFEST.json written:", len(checks), "checks,", len(na), "not applicable")

if __name__ == "__main__":
    main()
