#!/usr/bin/env python3
"""tools/seeded_meta.py <dir-name> <property> "<needs to manifest>" "<what I ran>" CAUGHT=C01,C05 MISSED=C04 [NOTE="..."]
Writes /verif/seeded/<dir-name>/meta.json and regenerates /verif/seeded/README.md."""
import json, os, sys, glob

ROOT = os.path.dirname(os.path.dirname(os.path.abspath(__file__)))

def main():
    name, prop, needs, ran = sys.argv[1:5]
    caught, missed, note = [], [], ""
    for a in sys.argv[5:]:
        if a.startswith("CAUGHT="):
            caught = [x for x in a[7:].split(",") if x]
        elif a.startswith("MISSED="):
            missed = [x for x in a[7:].split(",") if x]
        elif a.startswith("NOTE="):
            note = a[5:]
    d = os.path.join(ROOT, "seeded", name)
    suite = ""
    p = os.path.join(d, ".suite_passed")
    if os.path.exists(p):
        suite = open(p).read().strip()
        os.remove(p)
    meta = {
        "breaks_property": prop,
        "needs_to_manifest": needs,
        "confirmed_in_scratch_worktree": {
            "existing_suite_with_change": f"{suite} tests passed, 0 failed (cargo test --workspace --offline, persistence integration tests one at a time, private network namespace)",
            "demonstration_with_change": "fails",
            "demonstration_without_change": "passes",
            "how": ran,
        },
        "checks_quick_tier_against_the_change": {"caught_by": caught, "missed_by": missed},
        "note": note,
    }
    json.dump(meta, open(os.path.join(d, "meta.json"), "w"), indent=1)
    # README table
    rows = []
    for m in sorted(glob.glob(os.path.join(ROOT, "seeded", "*", "meta.json"))):
        x = json.load(open(m))
        n = os.path.basename(os.path.dirname(m))
        c = x["checks_quick_tier_against_the_change"]
        rows.append(f"| {n} | {x['breaks_property']} | {x['needs_to_manifest']} | {', '.join(c['caught_by']) or '-'} | {', '.join(c['missed_by']) or '-'} | {x.get('note','')} |")
    with open(os.path.join(ROOT, "seeded", "README.md"), "w") as f:
        f.write("# Seeded changes\n\nEach directory holds a change to babymotte/worterbuch written by a fresh sub-agent that saw only the text of one property and its own scratch worktree (nothing from /verif): `patch.diff` (apply with `git -C /repo apply`), `demo/` (a test that fails with the change and passes without it), `notes.md` (the agent's notes) and `meta.json` (what I confirmed myself in a scratch worktree and what my checks do with it). None of these changes is committed to /repo. `tools/try_mutant.sh <patch> <ID>…` applies one, runs the quick tier of the given checks and undoes it.\n\n")
        f.write("| change | breaks | needs to manifest | caught by (quick tier) | missed by | note |\n|---|---|---|---|---|---|\n")
        f.write("\n".join(rows) + "\n")
    print("written", os.path.join(d, "meta.json"))

if __name__ == "__main__":
    main()
