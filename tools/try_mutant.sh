#!/bin/sh
# tools/try_mutant.sh <patch.diff> <ID> [<ID> ...]
# Applies a seeded change to /repo, runs the quick tier of the given checks against it and
# undoes the change again (also on failure). Prints one line per check: CAUGHT / MISSED / INCONCLUSIVE.
# Evidence and replay files written during these runs are thrown away.
PATCH="$1"
shift
ROOT="$(cd "$(dirname "$0")/.." && pwd)"
if ! git -C /repo diff --quiet; then
    echo "/repo has uncommitted changes - refusing to run"
    exit 2
fi
if ! git -C /repo apply --check "$PATCH" 2>/dev/null; then
    echo "patch does not apply to /repo"
    exit 2
fi
git -C /repo apply "$PATCH"
trap 'git -C /repo checkout -- . ; git -C /repo clean -fdq -- worterbuch worterbuch-common worterbuch-client worterbuch-cluster-orchestrator 2>/dev/null' EXIT INT TERM
SAVE="$(mktemp -d "$ROOT/harness/target/mutant-save.XXXXXX")"
cp -r "$ROOT/evidence" "$SAVE/evidence" 2>/dev/null
for ID in "$@"; do
    before="$(ls "$ROOT/replays/$ID" 2>/dev/null | sort)"
    out="$("$ROOT/check" "$ID" quick 2>&1)"
    rc=$?
    line="$(echo "$out" | grep -E "^(VIOLATION|failure in part)" | head -2 | tr '\n' ' ' | cut -c1-400)"
    case $rc in
        0) echo "$ID MISSED  $(echo "$out" | tail -1)" ;;
        1) echo "$ID CAUGHT  $line" ;;
        *) echo "$ID INCONCLUSIVE  $(echo "$out" | tail -3 | tr '\n' ' ' | cut -c1-300)" ;;
    esac
    # remove replay files created by this run
    for f in $(ls "$ROOT/replays/$ID" 2>/dev/null | sort); do
        echo "$before" | grep -qx "$f" || rm -f "$ROOT/replays/$ID/$f"
    done
done
rm -rf "$ROOT/evidence"
cp -r "$SAVE/evidence" "$ROOT/evidence" 2>/dev/null
rm -rf "$SAVE"
