#!/bin/sh
# Stand-in for the worterbuch server executable in the C19 black-box check:
# logs a time stamp and its command line, then stays alive like a server would.
echo "$(date +%s%N) $*" >> "${WBVERIF_STUB_LOG:-/dev/null}"
exec sleep 100000
