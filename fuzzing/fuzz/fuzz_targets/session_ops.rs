//! C17, coverage guided and socket free: bytes -> lines -> `Proto::process_incoming_message` of a
//! fresh in-process server per iteration (no state leaks between iterations); a witness uses the
//! server's own API before and after. Any panic (debug assertions and overflow checks are on in
//! cargo-fuzz builds) aborts the process and is reported by libFuzzer with the input.
#![no_main]

use libfuzzer_sys::fuzz_target;
use serde_json::json;
use wbverif::server::Server;
use worterbuch_common::{Protocol, WbApi};

fuzz_target!(|data: &[u8]| {
    static INIT: std::sync::Once = std::sync::Once::new();
    INIT.call_once(wbverif::interp::init_base_config);
    thread_local! {
        static RT: tokio::runtime::Runtime = tokio::runtime::Builder::new_current_thread().enable_all().build().expect("runtime");
    }
    RT.with(|rt| {
        rt.block_on(async {
            let config = wbverif::interp::base_config_cached();
            let server = Server::start(config.clone()).await.expect("server starts");
            let api = server.api.clone();
            let witness = uuid::Uuid::from_u128(42);
            api.set("witness/k".to_owned(), json!(1), witness).await.expect("witness set");
            let hostile = uuid::Uuid::from_u128(43);
            api.connected(hostile, None, Protocol::UNIX).await.expect("connected");
            let (tx, mut rx) = tokio::sync::mpsc::channel(100_000);
            let mut proto = worterbuch::verif::Proto::new(hostile, tx, false, config, api.clone());
            let mut authorized = None;
            for line in data.split(|b| *b == b'\n').take(40) {
                let Ok(line) = std::str::from_utf8(line) else { break };
                match proto.process_incoming_message(line, &mut authorized).await {
                    Ok(true) => {}
                    // the session is closed by the server: that is allowed
                    Ok(false) | Err(_) => break,
                }
                while rx.try_recv().is_ok() {}
            }
            drop(proto);
            api.disconnected(hostile, None).await.expect("disconnected");
            // the witness is still served correctly
            api.set("witness/k2".to_owned(), json!(2), witness).await.expect("witness set after hostile input");
            assert_eq!(api.get("witness/k2".to_owned()).await.expect("witness get"), json!(2));
            server.stop().await.expect("the server stops cleanly: no task crashed");
        })
    });
});
