//! C14, decode direction: arbitrary bytes -> if they decode as a client or server message, then
//! encoding the decoded message must give one line that decodes to an equal message, and the
//! encoding must be a fixed point (asymmetric acceptance between encoder and decoder is found here).
#![no_main]

use libfuzzer_sys::fuzz_target;
use worterbuch_common::{ClientMessage, ServerMessage};

fn check<T>(data: &str, what: &str)
where
    T: serde::Serialize + serde::de::DeserializeOwned + PartialEq + std::fmt::Debug,
{
    let Ok(m) = serde_json::from_str::<T>(data) else { return };
    let s = serde_json::to_string(&m).expect("a decoded message can be encoded");
    assert!(!s.contains('\n') && !s.contains('\r'), "{what}: encoding contains a line break: {s}");
    let back: T = match serde_json::from_str(&s) {
        Ok(b) => b,
        Err(e) => panic!("{what}: own encoding does not decode: {s}: {e}"),
    };
    assert_eq!(back, m, "{what}: decode(encode(m)) != m for {s}");
    let again = serde_json::to_string(&back).expect("encodes");
    assert_eq!(again, s, "{what}: encoding is not a function of the message");
}

fuzz_target!(|data: &[u8]| {
    let Ok(text) = std::str::from_utf8(data) else { return };
    check::<ClientMessage>(text, "client message");
    check::<ServerMessage>(text, "server message");
});
