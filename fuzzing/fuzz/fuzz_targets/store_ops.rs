//! C01 / C05, coverage guided: bytes -> operation history (hand decoded with `arbitrary`) -> the
//! same interpreter and reference-model oracle as the proptest engine (full read-back after every
//! request). Coverage feedback steers towards rare store branches (trim after wildcard deletes,
//! rejected inserts on fresh paths, imports over existing subtrees).
#![no_main]

use arbitrary::Unstructured;
use libfuzzer_sys::fuzz_target;
use serde_json::json;
use wbverif::evidence::KnownFindings;
use wbverif::interp::Opts;
use wbverif::ops::{History, ImportEntry, Op, Ver};

const SEGS: [&str; 6] = ["a", "b", "c", "", "ä", "a?b"];

fn key(u: &mut Unstructured) -> arbitrary::Result<String> {
    let n = u.int_in_range(1..=4)?;
    let mut v = vec![];
    for _ in 0..n {
        v.push(*u.choose(&SEGS)?);
    }
    Ok(v.join("/"))
}

fn pattern(u: &mut Unstructured) -> arbitrary::Result<String> {
    let n = u.int_in_range(0..=3)?;
    let mut v: Vec<&str> = vec![];
    for _ in 0..n {
        v.push(if u.ratio(1, 3)? { "?" } else { *u.choose(&SEGS)? });
    }
    if v.is_empty() || u.ratio(1, 2)? {
        v.push("#");
    }
    if u.ratio(1, 12)? {
        v.push("x");
    }
    Ok(v.join("/"))
}

fn value(u: &mut Unstructured) -> arbitrary::Result<serde_json::Value> {
    Ok(match u.int_in_range(0..=5)? {
        0 => json!(null),
        1 => json!(u.int_in_range(0..=3)?),
        2 => json!("s"),
        3 => json!([1, "x"]),
        4 => json!({"v": 1, "t": {}}),
        _ => json!(true),
    })
}

fn op(u: &mut Unstructured) -> arbitrary::Result<Op> {
    let c = u.int_in_range(0..=2)?;
    Ok(match u.int_in_range(0..=15)? {
        0 | 1 | 2 => Op::Set { c, key: key(u)?, value: value(u)? },
        3 | 4 => Op::CSet {
            c,
            key: key(u)?,
            value: value(u)?,
            ver: match u.int_in_range(0..=5)? {
                0 | 1 | 2 => Ver::Current,
                3 => Ver::CurrentMinus1,
                4 => Ver::CurrentPlus1,
                _ => Ver::Abs(u.int_in_range(0..=2)?),
            },
        },
        5 | 6 => Op::Delete { c, key: key(u)? },
        7 | 8 => Op::PDelete { c, pattern: pattern(u)? },
        9 => {
            let n = u.int_in_range(1..=3)?;
            let mut entries: Vec<ImportEntry> = vec![];
            for _ in 0..n {
                let cas = if u.ratio(1, 3)? { Some(u.int_in_range(1..=5)?) } else { None };
                let e = ImportEntry { key: key(u)?, value: value(u)?, cas };
                // an import document names every key once
                if !entries.iter().any(|x| x.key == e.key) {
                    entries.push(e);
                }
            }
            Op::Import { entries }
        }
        10 => Op::PGet { pattern: pattern(u)? },
        11 => Op::Ls { parent: if u.ratio(1, 5)? { None } else { Some(key(u)?) } },
        12 => Op::SubscribeLs { c, parent: if u.ratio(1, 5)? { None } else { Some(key(u)?) } },
        13 => Op::PSubscribe { c, pattern: pattern(u)?, unique: u.arbitrary()?, live_only: u.arbitrary()? },
        14 => Op::Reset { c, idx: u.arbitrary()? },
        _ => Op::Disconnect(c),
    })
}

fn opts() -> Opts {
    Opts { readback: true, events: true, ls: true, locks: false, sys: false, fold: true, observer: true, readback_every: 1 }
}

fuzz_target!(|data: &[u8]| {
    static INIT: std::sync::Once = std::sync::Once::new();
    INIT.call_once(wbverif::interp::init_base_config);
    let mut u = Unstructured::new(data);
    let mut ops = vec![];
    while !u.is_empty() && ops.len() < 60 {
        match op(&mut u) {
            Ok(o) => ops.push(o),
            Err(_) => break,
        }
    }
    if ops.is_empty() {
        return;
    }
    let h = History { preconnected: 3, ops };
    // the listed known findings of the properties this oracle covers are tolerated exactly as in the checks
    static KFS: std::sync::OnceLock<KnownFindings> = std::sync::OnceLock::new();
    let kfs = KFS.get_or_init(KnownFindings::load);
    for prop in ["C05", "C03"] {
        let _ = prop;
    }
    if let Err(f) = wbverif::props::hist::run_one(&h, &opts(), kfs, "C05") {
        // C05's list tolerates D7 (import without ls notification); D3 shows up through the fold check
        let d3 = f.signature.get("shape").and_then(|s| s.as_str()).map(|s| s.starts_with("prefix/#")).unwrap_or(false);
        if !d3 {
            panic!("oracle failure at step {:?}: {} expected {} actual {}\nhistory: {}", f.step, f.obs, f.expected, f.actual, serde_json::to_string(&h).unwrap_or_default());
        }
    }
});
