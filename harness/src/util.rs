//! Seeds, parallel proptest runner, scratch directories, failure type.

use proptest::strategy::{BoxedStrategy, ValueTree};
use proptest::test_runner::{Config, RngSeed, TestCaseError, TestError, TestRunner};
use serde::{Deserialize, Serialize};
use serde_json::Value;
use std::collections::{BTreeMap, HashSet};
use std::fmt::Debug;
use std::hash::{Hash, Hasher};
use std::path::PathBuf;
use std::sync::atomic::{AtomicBool, AtomicU64, Ordering};
use std::sync::{Arc, Mutex};

#[derive(Clone, Copy, Debug, PartialEq, Eq)]
pub enum Tier {
    Quick,
    Thorough,
}

impl Tier {
    pub fn name(&self) -> &'static str {
        match self {
            Tier::Quick => "quick",
            Tier::Thorough => "thorough",
        }
    }
    pub fn pick<T>(&self, quick: T, thorough: T) -> T {
        match self {
            Tier::Quick => quick,
            Tier::Thorough => thorough,
        }
    }
}

#[derive(Clone, Debug)]
pub struct RunCfg {
    pub prop: String,
    pub seed: u64,
    pub tier: Tier,
    pub workers: usize,
    /// scale factor for case counts (for quick experiments), 1.0 normally
    pub scale: f64,
}

impl RunCfg {
    pub fn cases(&self, quick: u64, thorough: u64) -> u64 {
        // the quick tier is fixed work, sized per property so that it takes roughly 15-40 s on 16 cores
        let quick_factor = match (self.tier, self.prop.as_str()) {
            (Tier::Thorough, _) => 1.0,
            (_, "C01") => 4.0,
            (_, "C02") => 8.0,
            (_, "C03") => 10.0,
            (_, "C04") => 6.0,
            (_, "C05") => 5.0,
            (_, "C06") => 3.0,
            (_, "C07") => 2.0,
            (_, "C08") => 5.0,
            (_, "C09") => 3.0,
            (_, "C10") => 4.0,
            (_, "C11") => 15.0,
            (_, "C12") => 10.0,
            (_, "C13") => 15.0,
            (_, "C14") => 12.0,
            (_, "C15") => 10.0,
            (_, "C16") => 3.0,
            (_, "C17") => 5.0,
            (_, "C18") => 0.6,
            (_, "C20") => 8.0,
            _ => 1.0,
        };
        ((self.tier.pick(quick, thorough) as f64) * quick_factor * self.scale).max(1.0) as u64
    }
}

pub fn mix(seed: u64, salt: &str, worker: u64) -> u64 {
    // splitmix64 over a simple fold; deterministic across runs and platforms
    let mut h: u64 = seed ^ 0x9E37_79B9_7F4A_7C15;
    for b in salt.bytes() {
        h = (h ^ b as u64).wrapping_mul(0x100_0000_01B3);
    }
    h ^= worker.wrapping_mul(0xD6E8_FEB8_6659_FD93);
    let mut z = h.wrapping_add(0x9E37_79B9_7F4A_7C15);
    z = (z ^ (z >> 30)).wrapping_mul(0xBF58_476D_1CE4_E5B9);
    z = (z ^ (z >> 27)).wrapping_mul(0x94D0_49BB_1331_11EB);
    z ^ (z >> 31)
}

pub fn hash_of<T: Hash>(t: &T) -> u64 {
    let mut h = std::collections::hash_map::DefaultHasher::new();
    t.hash(&mut h);
    h.finish()
}

pub fn hash_json<T: Serialize>(t: &T) -> u64 {
    hash_of(&serde_json::to_string(t).unwrap_or_default())
}

/// map a generated index monotonically onto 0..len (keeps shrinking effective)
pub fn map_idx(i: u16, len: usize) -> usize {
    ((i as usize) * len) >> 16
}

#[derive(Clone, Debug, Serialize, Deserialize)]
pub struct Failure {
    /// which observable disagreed
    pub obs: String,
    pub step: Option<usize>,
    pub expected: String,
    pub actual: String,
    /// small structured signature used to match known findings
    pub signature: Value,
}

impl Failure {
    pub fn new(obs: &str, expected: impl Debug, actual: impl Debug) -> Self {
        Failure {
            obs: obs.to_owned(),
            step: None,
            expected: trunc(format!("{expected:?}")),
            actual: trunc(format!("{actual:?}")),
            signature: Value::Null,
        }
    }
    pub fn at(mut self, step: usize) -> Self {
        self.step = Some(step);
        self
    }
    pub fn sig(mut self, v: Value) -> Self {
        self.signature = v;
        self
    }
}

fn trunc(s: String) -> String {
    if s.len() > 2000 {
        let mut end = 2000;
        while !s.is_char_boundary(end) {
            end -= 1;
        }
        format!("{}…", &s[..end])
    } else {
        s
    }
}

/// what one executed case reports back
#[derive(Clone, Debug, Default)]
pub struct CaseReport {
    pub nontrivial: bool,
    pub classes: Vec<&'static str>,
    pub counters: Vec<(&'static str, u64)>,
    /// known findings observed (id)
    pub kf: Vec<String>,
    pub excluded: Vec<(&'static str, u64)>,
    pub inconclusive: bool,
}

#[derive(Debug, Default)]
pub struct Agg {
    pub evaluations: u64,
    pub nontrivial: u64,
    pub distinct_nontrivial: HashSet<u64>,
    pub classes: BTreeMap<String, u64>,
    pub counters: BTreeMap<String, u64>,
    pub kf: BTreeMap<String, u64>,
    pub excluded: BTreeMap<String, u64>,
    pub inconclusive: u64,
    pub samples: Vec<Value>,
}

impl Agg {
    pub fn merge_case(&mut self, hash: u64, rep: &CaseReport, sample: impl FnOnce() -> Value) {
        self.evaluations += 1;
        if rep.nontrivial {
            self.nontrivial += 1;
            let new = self.distinct_nontrivial.insert(hash);
            if new && self.samples.len() < 4 {
                self.samples.push(sample());
            }
        }
        for c in &rep.classes {
            *self.classes.entry((*c).to_owned()).or_default() += 1;
        }
        for (c, n) in &rep.counters {
            *self.counters.entry((*c).to_owned()).or_default() += n;
        }
        for k in &rep.kf {
            *self.kf.entry(k.clone()).or_default() += 1;
        }
        for (c, n) in &rep.excluded {
            *self.excluded.entry((*c).to_owned()).or_default() += n;
        }
        if rep.inconclusive {
            self.inconclusive += 1;
        }
    }

    pub fn merge(&mut self, other: Agg) {
        self.evaluations += other.evaluations;
        self.nontrivial += other.nontrivial;
        self.distinct_nontrivial.extend(other.distinct_nontrivial);
        for (k, v) in other.classes {
            *self.classes.entry(k).or_default() += v;
        }
        for (k, v) in other.counters {
            *self.counters.entry(k).or_default() += v;
        }
        for (k, v) in other.kf {
            *self.kf.entry(k).or_default() += v;
        }
        for (k, v) in other.excluded {
            *self.excluded.entry(k).or_default() += v;
        }
        self.inconclusive += other.inconclusive;
        for s in other.samples {
            if self.samples.len() < 5 {
                self.samples.push(s);
            }
        }
    }
}

pub struct Violation<T> {
    pub case: T,
    pub failure: Failure,
}

/// Run `cases` generated cases on `cfg.workers` threads, each with its own seeded TestRunner.
/// The first failing worker shrinks its case; the minimal case and its failure are returned.
pub fn run_prop<T, SF, F>(
    cfg: &RunCfg,
    part: &str,
    cases: u64,
    strategy: SF,
    test: F,
) -> (Agg, Option<Violation<T>>)
where
    T: Debug + Clone + Serialize + Send + 'static,
    SF: Fn() -> BoxedStrategy<T> + Sync,
    F: Fn(&T) -> Result<CaseReport, Failure> + Sync,
{
    let workers = cfg.workers.max(1).min(cases.max(1) as usize);
    let per = cases.div_ceil(workers as u64);
    let stop = Arc::new(AtomicBool::new(false));
    let total = Mutex::new(Agg::default());
    let violation: Mutex<Option<(usize, Violation<T>)>> = Mutex::new(None);
    std::thread::scope(|scope| {
        for wi in 0..workers {
            let stop = stop.clone();
            let total = &total;
            let violation = &violation;
            let strategy = &strategy;
            let test = &test;
            let salt = format!("{}/{}", cfg.prop, part);
            let seed = mix(cfg.seed, &salt, wi as u64);
            std::thread::Builder::new()
                .name(format!("w{wi}"))
                .stack_size(16 << 20)
                .spawn_scoped(scope, move || {
                    let config = Config {
                        cases: per.min(u32::MAX as u64) as u32,
                        failure_persistence: None,
                        rng_seed: RngSeed::Fixed(seed),
                        max_shrink_iters: 30_000,
                        max_shrink_time: 120_000,
                        verbose: 0,
                        ..Config::default()
                    };
                    let mut runner = TestRunner::new(config);
                    let agg = std::cell::RefCell::new(Agg::default());
                    let failed = std::cell::Cell::new(false);
                    let failures: std::cell::RefCell<std::collections::HashMap<u64, Failure>> = Default::default();
                    let strat = strategy();
                    let res = runner.run(&strat, |case| {
                        if stop.load(Ordering::Relaxed) && !failed.get() {
                            return Ok(());
                        }
                        if let Ok(dir) = std::env::var("VERIF_TRACE_CASES") {
                            // debugging aid for hangs: the case a worker is about to run
                            std::fs::write(format!("{dir}/{}-w{wi}.json", salt.replace('/', "-")), serde_json::to_string(&case).unwrap_or_default()).ok();
                        }
                        match guarded(|| test(&case)) {
                            Ok(rep) => {
                                if !failed.get() {
                                    let h = hash_json(&case);
                                    agg.borrow_mut().merge_case(h, &rep, || {
                                        serde_json::to_value(&case).unwrap_or(Value::Null)
                                    });
                                }
                                Ok(())
                            }
                            Err(f) => {
                                if !failed.get() {
                                    failed.set(true);
                                    agg.borrow_mut().evaluations += 1;
                                    stop.store(true, Ordering::Relaxed);
                                }
                                let reason = format!("{}: expected {} actual {}", f.obs, f.expected, f.actual);
                                // remember the structured failure of this very case (timing dependent
                                // engines may not fail again when the shrunk case is re-run)
                                failures.borrow_mut().insert(hash_json(&case), f);
                                Err(TestCaseError::fail(reason))
                            }
                        }
                    });
                    total.lock().expect("lock").merge(agg.into_inner());
                    if let Err(e) = res {
                        match e {
                            TestError::Fail(_, case) => {
                                // the structured failure recorded when this minimal case failed
                                let recorded = failures.borrow_mut().remove(&hash_json(&case));
                                let failure = match recorded {
                                    Some(f) => f,
                                    None => match guarded(|| test(&case)) {
                                        Err(f) => f,
                                        Ok(_) => Failure::new("flaky", "failure to reproduce on the shrunk case", "passed"),
                                    },
                                };
                                let mut v = violation.lock().expect("lock");
                                if v.as_ref().map(|(w, _)| *w > wi).unwrap_or(true) {
                                    *v = Some((wi, Violation { case, failure }));
                                }
                            }
                            TestError::Abort(r) => {
                                eprintln!("proptest aborted in worker {wi}: {r}");
                            }
                        }
                    }
                })
                .expect("spawn");
        }
    });
    let agg = total.into_inner().expect("lock");
    let v = violation.into_inner().expect("lock").map(|(_, v)| v);
    (agg, v)
}

/// Run a closure over an explicit list of cases in parallel (exhaustive enumeration).
pub fn run_enumerated<T, F>(cfg: &RunCfg, cases: &[T], test: F) -> (Agg, Option<Violation<T>>)
where
    T: Debug + Clone + Serialize + Send + Sync,
    F: Fn(&T) -> Result<CaseReport, Failure> + Sync,
{
    let workers = cfg.workers.max(1);
    let next = AtomicU64::new(0);
    let stop = AtomicBool::new(false);
    let total = Mutex::new(Agg::default());
    let violation: Mutex<Option<(u64, Violation<T>)>> = Mutex::new(None);
    std::thread::scope(|scope| {
        for wi in 0..workers {
            let next = &next;
            let stop = &stop;
            let total = &total;
            let violation = &violation;
            let test = &test;
            std::thread::Builder::new()
                .name(format!("e{wi}"))
                .stack_size(16 << 20)
                .spawn_scoped(scope, move || {
                    let mut agg = Agg::default();
                    loop {
                        if stop.load(Ordering::Relaxed) {
                            break;
                        }
                        let start = next.fetch_add(256, Ordering::Relaxed);
                        if start >= cases.len() as u64 {
                            break;
                        }
                        let end = (start + 256).min(cases.len() as u64);
                        for i in start..end {
                            let case = &cases[i as usize];
                            match guarded(|| test(case)) {
                                Ok(rep) => {
                                    agg.merge_case(hash_json(case), &rep, || serde_json::to_value(case).unwrap_or(Value::Null));
                                }
                                Err(failure) => {
                                    agg.evaluations += 1;
                                    stop.store(true, Ordering::Relaxed);
                                    let mut v = violation.lock().expect("lock");
                                    if v.as_ref().map(|(j, _)| *j > i).unwrap_or(true) {
                                        *v = Some((i, Violation { case: case.clone(), failure }));
                                    }
                                    break;
                                }
                            }
                        }
                    }
                    total.lock().expect("lock").merge(agg);
                })
                .expect("spawn");
        }
    });
    (
        total.into_inner().expect("lock"),
        violation.into_inner().expect("lock").map(|(_, v)| v),
    )
}

/// generate one value from a strategy with a fixed seed (used for samples / replay tooling)
pub fn sample_one<T: Debug>(strategy: &BoxedStrategy<T>, seed: u64) -> T {
    let mut runner = TestRunner::new(Config {
        rng_seed: RngSeed::Fixed(seed),
        failure_persistence: None,
        ..Config::default()
    });
    use proptest::strategy::Strategy;
    strategy.new_tree(&mut runner).expect("tree").current()
}

pub fn verif_root() -> PathBuf {
    std::env::var("VERIF_ROOT").map(PathBuf::from).unwrap_or_else(|_| PathBuf::from("/verif"))
}

/// per-process scratch directory below harness/target (never /tmp)
pub fn scratch_dir(prop: &str) -> PathBuf {
    let p = verif_root()
        .join("harness/target/scratch")
        .join(prop)
        .join(std::process::id().to_string());
    std::fs::create_dir_all(&p).expect("create scratch dir");
    p
}

pub fn remove_scratch(prop: &str) {
    let p = verif_root()
        .join("harness/target/scratch")
        .join(prop)
        .join(std::process::id().to_string());
    std::fs::remove_dir_all(p).ok();
}

/// a current-thread tokio runtime per worker thread
pub fn block_on<F: std::future::Future>(f: F) -> F::Output {
    thread_local! {
        static RT: tokio::runtime::Runtime = tokio::runtime::Builder::new_current_thread()
            .enable_all()
            .build()
            .expect("runtime");
    }
    RT.with(|rt| rt.block_on(f))
}

thread_local! {
    static LAST_PANIC: std::cell::RefCell<Option<String>> = const { std::cell::RefCell::new(None) };
}

thread_local! {
    static PANICS: std::cell::Cell<u64> = const { std::cell::Cell::new(0) };
}

/// number of panics seen on this thread so far (tasks of an in-process server run on the
/// thread of the case that started it, because every worker has a current-thread runtime)
pub fn panic_count() -> u64 {
    PANICS.with(|p| p.get())
}

pub fn last_panic() -> Option<String> {
    LAST_PANIC.with(|p| p.borrow().clone())
}

/// install a panic hook that records the message (and location) instead of printing it
pub fn install_panic_hook() {
    std::panic::set_hook(Box::new(|info| {
        let msg = if let Some(s) = info.payload().downcast_ref::<&str>() {
            (*s).to_owned()
        } else if let Some(s) = info.payload().downcast_ref::<String>() {
            s.clone()
        } else {
            "panic".to_owned()
        };
        let loc = info.location().map(|l| format!("{}:{}", l.file(), l.line())).unwrap_or_default();
        LAST_PANIC.with(|p| *p.borrow_mut() = Some(format!("{msg} at {loc}")));
        PANICS.with(|p| p.set(p.get() + 1));
        if std::env::var("VERIF_SHOW_PANICS").is_ok() {
            eprintln!("panic: {msg} at {loc}");
        }
    }));
}

/// run a case; a panic (of the code under test or of the harness) becomes a failure with obs "panic"
pub fn guarded<F: FnOnce() -> Result<CaseReport, Failure>>(f: F) -> Result<CaseReport, Failure> {
    match std::panic::catch_unwind(std::panic::AssertUnwindSafe(f)) {
        Ok(r) => r,
        Err(_) => {
            let msg = LAST_PANIC.with(|p| p.borrow_mut().take()).unwrap_or_else(|| "panic".to_owned());
            let in_repo = msg.contains("/repo/");
            Err(Failure::new("panic", "no panic", &msg).sig(serde_json::json!({"obs": "panic", "in_code_under_test": in_repo, "message": msg})))
        }
    }
}
