//! In-process server engine: the whole worterbuch server (core task, stats task, persistence,
//! optional unix/tcp endpoints, leader/follower sync) started through the public
//! `spawn_worterbuch` under a `tosub` root, no hooks involved.

use std::path::PathBuf;
use std::sync::atomic::{AtomicU16, Ordering};
use tokio::sync::oneshot;
use tokio::task::JoinHandle;
use worterbuch::server::CloneableWbApi;
use worterbuch::{Config, UnixEndpoint};

pub struct Server {
    pub api: CloneableWbApi,
    pub config: Config,
    stop: Option<oneshot::Sender<()>>,
    done: Option<JoinHandle<Result<(), String>>>,
}

#[derive(Debug)]
struct RootErr(String);
impl std::fmt::Display for RootErr {
    fn fmt(&self, f: &mut std::fmt::Formatter<'_>) -> std::fmt::Result {
        self.0.fmt(f)
    }
}
impl std::error::Error for RootErr {}

impl Server {
    pub async fn start(config: Config) -> Result<Server, String> {
        let (api_tx, api_rx) = oneshot::channel();
        let (stop_tx, stop_rx) = oneshot::channel::<()>();
        let cfg = config.clone();
        let done = tokio::spawn(async move {
            let res = tosub::build_root("wbverif-server")
                .catch_no_signals()
                .with_timeout(std::time::Duration::from_secs(20))
                .start(move |s| async move {
                    let api = worterbuch::spawn_worterbuch(&s, cfg).await.map_err(|e| RootErr(e.to_string()))?;
                    api_tx.send(api).ok();
                    tokio::select! {
                        _ = stop_rx => {},
                        _ = s.shutdown_requested() => {},
                    }
                    Ok::<(), RootErr>(())
                })
                .await;
            match res {
                Ok(_) => Ok(()),
                Err(e) => Err(format!("{e:?}")),
            }
        });
        match tokio::time::timeout(std::time::Duration::from_secs(20), api_rx).await {
            Ok(Ok(api)) => Ok(Server {
                api,
                config,
                stop: Some(stop_tx),
                done: Some(done),
            }),
            Ok(Err(_)) => {
                let r = done.await;
                Err(format!("server did not start: {r:?}"))
            }
            Err(_) => Err("server did not start within 20 s".to_owned()),
        }
    }

    /// has the server (any of its subsystems) terminated - e.g. after a panic of the core task
    pub fn is_finished(&self) -> bool {
        self.done.as_ref().map(|d| d.is_finished()).unwrap_or(true)
    }

    /// graceful stop (the shutdown sequence runs, incl. the final flush); Err = a subsystem crashed
    pub async fn stop(mut self) -> Result<(), String> {
        if let Some(s) = self.stop.take() {
            s.send(()).ok();
        }
        match self.done.take() {
            Some(d) => match tokio::time::timeout(std::time::Duration::from_secs(30), d).await {
                Ok(Ok(r)) => r,
                Ok(Err(e)) => Err(format!("server task join error: {e}")),
                Err(_) => Err("server did not stop within 30 s".to_owned()),
            },
            None => Ok(()),
        }
    }
}

static NEXT_PORT: AtomicU16 = AtomicU16::new(0);

/// a TCP port that is free right now (probed without SO_REUSEPORT); per-process rolling range
pub fn free_port() -> u16 {
    // below the kernel's ephemeral port range (32768..), so that outgoing connections of other
    // processes cannot take a port between the probe and its use
    let base = 20000 + ((std::process::id() % 60) as u16) * 200;
    loop {
        let off = NEXT_PORT.fetch_add(1, Ordering::Relaxed) % 200;
        let port = base + off;
        if std::net::TcpListener::bind(("127.0.0.1", port)).is_ok() {
            return port;
        }
    }
}

pub fn with_unix_socket(mut config: Config, path: PathBuf) -> Config {
    config.unix_endpoint = Some(UnixEndpoint { path });
    config.unix_disabled = false;
    config
}
