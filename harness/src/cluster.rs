//! Cluster engine: a leader and one or more followers as in-process servers, connected over
//! the real TCP sync port. Quiescence is established by a marker write on the leader that is
//! polled on the follower (same ordered channel), never by waiting.

use crate::interp::{base_config_cached, uuid};
use crate::model::INTERNAL;
use crate::server::{Server, free_port};
use crate::util::Failure;
use serde_json::{Value, json};
use std::time::Duration;
use worterbuch::{Config, Endpoint};
use worterbuch_common::WbApi;

pub fn cluster_base(mut c: Config) -> Config {
    c.ws_endpoint = None;
    c.unix_endpoint = None;
    // the bind address of the tcp endpoint is used for the sync port; the tcp server itself is off
    c.tcp_endpoint = Some(Endpoint { tls: false, bind_addr: [127, 0, 0, 1].into(), port: 0 });
    c.tcp_disabled = true;
    c.extended_monitoring = false;
    c.channel_buffer_size = 10_000;
    c
}

pub fn leader_config(port: u16) -> Config {
    let mut c = cluster_base(base_config_cached());
    c.leader = true;
    c.follower = false;
    c.sync_port = Some(port);
    c
}

pub fn follower_config(port: u16) -> Config {
    let mut c = cluster_base(base_config_cached());
    c.follower = true;
    c.leader = false;
    c.leader_address = Some(format!("127.0.0.1:{port}"));
    c
}

/// wait until the leader's sync port is bound (probing without SO_REUSEPORT fails once it is)
pub async fn wait_for_port(port: u16) -> Result<(), Failure> {
    for _ in 0..20_000 {
        if std::net::TcpListener::bind(("127.0.0.1", port)).is_err() {
            return Ok(());
        }
        tokio::time::sleep(Duration::from_millis(1)).await;
    }
    Err(Failure::new("cluster.port", "the leader binds its sync port within 20 s (20 000 probes)", port).sig(json!({"obs": "timeout"})))
}

pub async fn start_leader(config_for_port: impl Fn(u16) -> Config) -> Result<(Server, u16), Failure> {
    let port = free_port();
    let server = Server::start(config_for_port(port)).await.map_err(|e| Failure::new("cluster.leader", "leader starts", e))?;
    wait_for_port(port).await?;
    // some other process may have taken the port between the probe and the leader's bind
    tokio::time::sleep(Duration::from_millis(2)).await;
    if server.is_finished() {
        let e = server.stop().await.err().unwrap_or_default();
        let taken = e.contains("in use") || e.contains("AddrInUse");
        let f = Failure::new("cluster.leader", "the leader keeps running after its start", &e);
        return Err(if taken { f.sig(json!({"obs": "timeout"})) } else { f });
    }
    Ok((server, port))
}

/// write a marker on the leader and poll the follower until it is visible there
pub async fn quiesce(leader: &Server, follower: &Server, n: u64) -> Result<(), Failure> {
    leader
        .api
        .set("verif/marker".to_owned(), json!(n), uuid(INTERNAL))
        .await
        .map_err(|e| Failure::new("cluster.marker", "marker accepted by the leader", e.to_string()))?;
    let deadline = tokio::time::Instant::now() + Duration::from_secs(30);
    loop {
        if follower.is_finished() {
            return Err(Failure::new("cluster.follower_down", "the follower keeps running", "follower terminated").sig(json!({"obs": "cluster.follower_down"})));
        }
        match follower.api.get("verif/marker".to_owned()).await {
            Ok(v) if v == json!(n) => return Ok(()),
            _ => {}
        }
        if tokio::time::Instant::now() > deadline {
            return Err(Failure::new("cluster.marker_timeout", "the marker reaches the follower within 30 s", n).sig(json!({"obs": "timeout"})));
        }
        tokio::time::sleep(Duration::from_micros(300)).await;
    }
}

/// user keys (everything outside $SYS, the marker excluded) with value and version
pub async fn user_state(s: &Server) -> Result<Vec<(String, Value, u64)>, Failure> {
    let all = s.api.pget("#".to_owned()).await.map_err(|e| Failure::new("cluster.pget", "Ok", e.to_string()))?;
    let mut out = vec![];
    for kv in all {
        if kv.key == "$SYS" || kv.key.starts_with("$SYS/") || kv.key == "verif/marker" {
            continue;
        }
        let (v, ver) = s.api.cget(kv.key.clone()).await.map_err(|e| Failure::new("cluster.cget", kv.key.clone(), e.to_string()))?;
        out.push((kv.key, v, ver));
    }
    out.sort_by(|a, b| a.0.cmp(&b.0));
    Ok(out)
}

/// registrations held under $SYS/clients/<id>/{graveGoods,lastWill}
pub async fn registrations(s: &Server) -> Result<Vec<(String, Value)>, Failure> {
    let mut out = vec![];
    for leaf in ["graveGoods", "lastWill"] {
        let kvs = s.api.pget(format!("$SYS/clients/?/{leaf}")).await.map_err(|e| Failure::new("cluster.pget", "Ok", e.to_string()))?;
        out.extend(kvs.into_iter().map(|kv| (kv.key, kv.value)));
    }
    out.sort_by(|a, b| a.0.cmp(&b.0));
    Ok(out)
}
