//! JSON persistence engine: build a core holding a generated state, flush it through the real
//! flush procedure (optionally crashing at a crash point), load it back through the real loader.

use crate::interp::{base_config_cached, err_code, uuid};
use crate::model::*;
use crate::util::Failure;
use serde::{Deserialize, Serialize};
use serde_json::{Value, json};
use sha2::{Digest, Sha256};
use std::path::{Path as FsPath, PathBuf};
use worterbuch::verif::{self, Worterbuch};
use worterbuch::{Config, PersistenceMode};
use worterbuch_common::Protocol;

#[derive(Clone, Debug, PartialEq, Serialize, Deserialize)]
pub struct StateEntry {
    pub key: String,
    pub value: Value,
    pub cas: Option<u64>,
}

#[derive(Clone, Debug, PartialEq, Serialize, Deserialize, Default)]
pub struct Registration {
    pub grave_goods: Option<Vec<String>>,
    pub last_will: Option<Vec<(String, Value)>>,
}

/// a store content plus the registrations of the clients connected at that moment
#[derive(Clone, Debug, PartialEq, Serialize, Deserialize, Default)]
pub struct Snapshot {
    pub entries: Vec<StateEntry>,
    pub clients: Vec<Registration>,
}

pub fn persist_config(dir: &FsPath) -> Config {
    let mut c = base_config_cached();
    c.use_persistence = true;
    c.persistence_mode = PersistenceMode::Json;
    c.data_dir = dir.to_string_lossy().into_owned();
    c
}

impl Snapshot {
    pub fn store_entries(&self) -> Vec<(String, Entry)> {
        let mut seen = std::collections::BTreeSet::new();
        let mut out = vec![];
        for e in &self.entries {
            if seen.insert(e.key.clone()) {
                out.push((e.key.clone(), Entry { value: e.value.clone(), cas: e.cas }));
            }
        }
        out
    }

    pub fn all_grave_goods(&self) -> Vec<String> {
        self.clients.iter().flat_map(|c| c.grave_goods.clone().unwrap_or_default()).collect()
    }

    pub fn all_last_wills(&self) -> Vec<(String, Value)> {
        self.clients.iter().flat_map(|c| c.last_will.clone().unwrap_or_default()).collect()
    }

    /// R(snapshot): what a start from this snapshot must serve (user keys only): grave goods
    /// buried, then last wills published, by the server itself
    pub fn recovered(&self) -> World {
        let mut w = World::new();
        for (k, e) in self.store_entries() {
            w.data.insert(split(&k), e);
        }
        let mut fx = Effects::default();
        // the order in which several clients' registrations are applied is not fixed by the
        // statement: all grave goods first, then all last wills (as the flushed files list them)
        for g in self.all_grave_goods() {
            let p = parse_pattern(&g);
            if g.is_empty() || !pattern_valid(&p) {
                continue;
            }
            w.apply_pdelete(&p, INTERNAL, &mut fx);
        }
        for (k, v) in self.all_last_wills() {
            if k.is_empty() || has_wildcard(&parse_pattern(&k)) {
                continue;
            }
            if split(&k)[0] == SYS {
                // a loaded server contains nothing under $SYS (C09); clients cannot write there either
                continue;
            }
            w.apply_set(&k, v, INTERNAL, &mut fx);
        }
        w
    }

    /// does applying the registrations change the state
    pub fn registrations_change_state(&self) -> bool {
        let mut plain = World::new();
        for (k, e) in self.store_entries() {
            plain.data.insert(split(&k), e);
        }
        plain.data != self.recovered().data
    }

    /// several last wills for one key or a last will on a key matched by a grave good of another
    /// client: the result depends on an order the statement does not fix
    pub fn order_dependent(&self) -> bool {
        let lws = self.all_last_wills();
        for (i, (k, _)) in lws.iter().enumerate() {
            if lws.iter().skip(i + 1).any(|(k2, _)| k2 == k) {
                return true;
            }
        }
        false
    }
}

/// build a core that holds the snapshot (entries imported, clients connected and registered)
pub async fn build_core(snap: &Snapshot, config: &Config, client_base: u128) -> Result<Worterbuch, Failure> {
    let mut wb = Worterbuch::with_config(config.clone());
    let entries = snap.store_entries();
    if !entries.is_empty() {
        wb.import(&render_store_json(&entries))
            .await
            .map_err(|e| Failure::new("persist.setup.import", "Ok", err_code(&e)))?;
    }
    for (i, reg) in snap.clients.iter().enumerate() {
        let id = uuid(client_base + i as u128);
        wb.connected(id, None, &Protocol::UNIX)
            .await
            .map_err(|e| Failure::new("persist.setup.connect", "Ok", err_code(&e)))?;
        if let Some(gg) = &reg.grave_goods {
            wb.set(format!("$SYS/clients/{id}/graveGoods"), json!(gg), id, false)
                .await
                .map_err(|e| Failure::new("persist.setup.gg", "Ok", err_code(&e)))?;
        }
        if let Some(lw) = &reg.last_will {
            let v: Vec<Value> = lw.iter().map(|(k, v)| json!({"key": k, "value": v})).collect();
            wb.set(format!("$SYS/clients/{id}/lastWill"), Value::Array(v), id, false)
                .await
                .map_err(|e| Failure::new("persist.setup.lw", "Ok", err_code(&e)))?;
        }
    }
    Ok(wb)
}

pub fn gglw_json(snap: &Snapshot) -> String {
    let lws: Vec<Value> = snap.all_last_wills().iter().map(|(k, v)| json!({"key": k, "value": v})).collect();
    json!({"grave_goods": snap.all_grave_goods(), "last_will": lws}).to_string()
}

pub fn sha256_hex(data: &[u8]) -> String {
    let mut h = Sha256::new();
    h.update(data);
    hex::encode(h.finalize())
}

/// full read-back of a loaded core compared with the expected world (user keys; $SYS must be empty)
pub fn compare_loaded(wb: &Worterbuch, expected: &World) -> Result<(), Failure> {
    let all = wb.pget("#").map_err(|e| Failure::new("loaded.pget", "Ok", err_code(&e)))?;
    let mut sys: Vec<String> = vec![];
    let mut act: Vec<(String, Value)> = vec![];
    for kv in all {
        if kv.key == "$SYS" || kv.key.starts_with("$SYS/") {
            sys.push(kv.key);
        } else {
            act.push((kv.key, kv.value));
        }
    }
    act.sort_by(|a, b| a.0.cmp(&b.0));
    let mut exp: Vec<(String, Value)> = expected.data.iter().filter(|(k, _)| k[0] != SYS).map(|(k, e)| (join(k), e.value.clone())).collect();
    exp.sort_by(|a, b| a.0.cmp(&b.0));
    if act != exp {
        // is every difference a plain value of the shape {"Cas":[v,n]} that came back as v (known finding D10)
        let a: std::collections::BTreeMap<&String, &Value> = act.iter().map(|(k, v)| (k, v)).collect();
        let e: std::collections::BTreeMap<&String, &Value> = exp.iter().map(|(k, v)| (k, v)).collect();
        let same_keys = a.keys().eq(e.keys());
        let only_cas_lookalikes = same_keys
            && e.iter().all(|(k, v)| {
                let got = a[k];
                got == *v
                    || (looks_like_cas_tag(v)
                        && expected.get(k).map(|en| en.cas.is_none()).unwrap_or(false)
                        && Some(got) == v.get("Cas").and_then(|c| c.get(0)))
            });
        return Err(Failure::new("loaded.values", exp, act).sig(json!({"obs": "loaded.values", "plain_value_looks_like_cas_tag": only_cas_lookalikes})));
    }
    for (k, e) in expected.data.iter().filter(|(k, _)| k[0] != SYS) {
        let key = join(k);
        let got = wb.cget(&key).map_err(|e| Failure::new("loaded.cget", format!("{key}"), err_code(&e)))?;
        if got != (e.value.clone(), e.version()) {
            let looks = e.cas.is_none() && looks_like_cas_tag(&e.value);
            return Err(Failure::new("loaded.kind_or_version", format!("{key}: {:?} version {}", e.value, e.version()), format!("{got:?}"))
                .sig(json!({"obs": "loaded.kind_or_version", "plain_value_looks_like_cas_tag": looks})));
        }
    }
    let exp_sys: Vec<String> = expected.data.keys().filter(|k| k[0] == SYS).map(|k| join(k)).collect();
    if !sys.is_empty() {
        let by_last_will = !exp_sys.is_empty() && sys.iter().all(|s| exp_sys.contains(s));
        return Err(Failure::new("loaded.sys_not_empty", "nothing under $SYS after loading", &sys)
            .sig(json!({"obs": "loaded.sys_not_empty", "created_by_last_will_aimed_at_sys": by_last_will})));
    }
    let n = wb.len();
    if n != exp.len() {
        return Err(Failure::new("loaded.len", exp.len(), n));
    }
    // structure: ls of every prefix
    let mut prefixes = std::collections::BTreeSet::new();
    for k in expected.data.keys().filter(|k| k[0] != SYS) {
        for i in 1..=k.len() {
            prefixes.insert(k[..i].to_vec());
        }
    }
    for p in prefixes {
        let exp: Vec<String> = expected.children(&p).into_iter().filter(|c| !(p.is_empty() && c == SYS)).collect();
        let mut got = wb.ls(&Some(join(&p))).map_err(|e| Failure::new("loaded.ls", format!("{p:?}"), err_code(&e)))?;
        got.sort();
        if got != exp {
            return Err(Failure::new("loaded.ls", format!("{p:?}: {exp:?}"), got));
        }
    }
    Ok(())
}

pub fn fresh_dir(base: &FsPath, name: &str) -> PathBuf {
    let d = base.join(name);
    std::fs::remove_dir_all(&d).ok();
    std::fs::create_dir_all(&d).expect("create case dir");
    d
}

/// load the way the server does at start-up: an error means "start with an empty instance"
pub async fn load_or_empty(config: &Config) -> (Worterbuch, bool) {
    match verif::json_load(config).await {
        Ok(wb) => (wb, true),
        Err(_) => (Worterbuch::with_config(config.clone()), false),
    }
}
