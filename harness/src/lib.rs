//! wbverif - property-based verification harness for worterbuch (library part: reference
//! model, generators, engines and the per-property checks; also used by the fuzz targets).

#![allow(dead_code)]
pub mod cluster;
pub mod evidence;
pub mod fuzzrun;
pub mod interp;
pub mod jgen;
pub mod model;
pub mod ops;
pub mod persist;
pub mod procsrv;
pub mod props;
pub mod server;
pub mod util;
pub mod wire;
