//! Reference model of the hierarchical map with subscriptions, locks and sessions.
//!
//! Written from README.md / specification.md / the property statements, not from store.rs:
//! a flat ordered map from key paths to entries, wildcard matching as a pure function, and
//! the session-end procedure spelled out step by step.

use serde_json::{Value, json};
use std::collections::{BTreeMap, BTreeSet};

pub type Path = Vec<String>;
pub type Cid = u128;

pub const INTERNAL: Cid = 0;
pub const SYS: &str = "$SYS";

pub fn split(key: &str) -> Path {
    key.split('/').map(|s| s.to_owned()).collect()
}

pub fn join(path: &[String]) -> String {
    path.join("/")
}

#[derive(Clone, Debug, PartialEq)]
pub struct Entry {
    pub value: Value,
    /// None = plain value, Some(n) = CAS protected with version n
    pub cas: Option<u64>,
}

impl Entry {
    pub fn plain(value: Value) -> Self {
        Entry { value, cas: None }
    }
    pub fn version(&self) -> u64 {
        self.cas.unwrap_or(0)
    }
}

#[derive(Clone, Debug, PartialEq, Eq, PartialOrd, Ord, Hash)]
pub enum PSeg {
    Lit(String),
    One,
    Multi,
}

pub fn parse_pattern(p: &str) -> Vec<PSeg> {
    p.split('/')
        .map(|s| match s {
            "?" => PSeg::One,
            "#" => PSeg::Multi,
            o => PSeg::Lit(o.to_owned()),
        })
        .collect()
}

pub fn has_wildcard(p: &[PSeg]) -> bool {
    p.iter().any(|s| !matches!(s, PSeg::Lit(_)))
}

/// a `#` is only allowed as the very last segment
pub fn pattern_valid(p: &[PSeg]) -> bool {
    match p.iter().position(|s| *s == PSeg::Multi) {
        Some(i) => i + 1 == p.len(),
        None => true,
    }
}

/// The documented relation (README: "`my/key/#` … all key/value pairs where the key starts
/// with `my/key/`"; specification: `?` = exactly one key element, `#` only at the very end).
/// Only defined for valid patterns.
pub fn matches_doc(p: &[PSeg], key: &[String]) -> bool {
    match_impl(p, key, false)
}

/// Same relation, but a trailing `#` additionally matches the key that equals the prefix
/// itself (`K/#` matches `K`). Used to *recognise* known finding D3, never as the oracle.
pub fn matches_prefix_too(p: &[PSeg], key: &[String]) -> bool {
    match_impl(p, key, true)
}

fn match_impl(p: &[PSeg], key: &[String], hash_matches_empty: bool) -> bool {
    let mut i = 0;
    loop {
        match (p.get(i), key.get(i)) {
            (None, None) => return true,
            (Some(PSeg::Multi), None) => return hash_matches_empty && i + 1 == p.len() && i > 0,
            (Some(PSeg::Multi), Some(_)) => return i + 1 == p.len(),
            (None, Some(_)) | (Some(_), None) => return false,
            (Some(PSeg::One), Some(_)) => {}
            (Some(PSeg::Lit(l)), Some(k)) => {
                if l != k {
                    return false;
                }
            }
        }
        i += 1;
    }
}

/// is (pattern, key) the shape of known finding D3: pattern = key + "/#"
pub fn is_prefix_hash_pair(p: &[PSeg], key: &[String]) -> bool {
    p.len() == key.len() + 1 && p.last() == Some(&PSeg::Multi) && matches_prefix_too(p, key) && !matches_doc(p, key)
}

#[derive(Clone, Debug, PartialEq)]
pub struct Sub {
    pub client: Cid,
    pub tid: u64,
    pub pattern: Vec<PSeg>,
    /// true = psubscribe (PState events), false = subscribe (State events)
    pub is_pattern: bool,
    pub unique: bool,
    pub live_only: bool,
}

#[derive(Clone, Debug, PartialEq)]
pub struct LsSub {
    pub client: Cid,
    pub tid: u64,
    pub parent: Path,
}

#[derive(Clone, Debug, PartialEq, Default)]
pub struct Lock {
    pub holder: Cid,
    /// waiting clients in order of their first request, with the number of pending requests
    pub queue: Vec<(Cid, usize)>,
}

#[derive(Clone, Debug, PartialEq, Default)]
pub struct Client {
    pub spub: BTreeMap<u64, String>,
}

/// one expected value event of a request
#[derive(Clone, Debug, PartialEq)]
pub struct ExpEvent {
    pub client: Cid,
    pub tid: u64,
    pub key: String,
    pub value: Value,
    pub deleted: bool,
    /// the statement does not fix whether this event is delivered (both accepted)
    pub optional: bool,
}

#[derive(Clone, Debug, PartialEq)]
pub enum LockEvent {
    Granted { client: Cid, key: String, n: usize },
    Cancelled { client: Cid, key: String, n: usize },
}

#[derive(Clone, Debug, Default)]
pub struct Effects {
    pub events: Vec<ExpEvent>,
    pub lock_events: Vec<LockEvent>,
    /// keys whose value changed through a request by an ordinary client although they lie
    /// under $SYS and are not the client's own three entries (should stay empty: C08)
    pub sys_touched_by_client: Vec<String>,
    /// events withheld from unique subscriptions because the write preserved the value
    pub unique_suppressed: u64,
}

#[derive(Clone, Debug, Default)]
pub struct World {
    pub data: BTreeMap<Path, Entry>,
    pub subs: Vec<Sub>,
    pub ls_subs: Vec<LsSub>,
    pub locks: BTreeMap<Path, Lock>,
    pub clients: BTreeMap<Cid, Client>,
    /// emulate known finding D3 when *predicting* what the store does for `K/#` vs `K`
    /// (query/delete/snapshot side matches, notification side does not)
    pub store_matches_prefix: bool,
}

#[derive(Clone, Debug, PartialEq)]
pub enum CsetVerdict {
    Ok(u64),
    VersionMismatch,
}

#[derive(Clone, Debug, PartialEq)]
pub enum SetVerdict {
    Ok,
    CasProtected,
}

pub fn client_name(c: Cid) -> String {
    uuid::Uuid::from_u128(c).to_string()
}

impl World {
    pub fn new() -> Self {
        World {
            store_matches_prefix: true,
            ..Default::default()
        }
    }

    // ---------------------------------------------------------------- relations

    /// relation used by queries, deletes and snapshots
    pub fn q_matches(&self, p: &[PSeg], key: &[String]) -> bool {
        if self.store_matches_prefix {
            matches_prefix_too(p, key)
        } else {
            matches_doc(p, key)
        }
    }

    // ---------------------------------------------------------------- reads

    pub fn get(&self, key: &str) -> Option<&Entry> {
        self.data.get(&split(key))
    }

    pub fn pget(&self, pattern: &[PSeg]) -> Vec<(String, Value)> {
        let mut out: Vec<(String, Value)> = self
            .data
            .iter()
            .filter(|(k, _)| self.q_matches(pattern, k))
            .map(|(k, e)| (join(k), e.value.clone()))
            .collect();
        out.sort_by(|a, b| a.0.cmp(&b.0));
        out
    }

    /// None = "no such value" (nothing stored at or below parent)
    pub fn ls(&self, parent: &[String]) -> Option<BTreeSet<String>> {
        let mut exists = false;
        let mut out = BTreeSet::new();
        for k in self.data.keys() {
            if k.len() >= parent.len() && k[..parent.len()] == *parent {
                exists = true;
                if k.len() > parent.len() {
                    out.insert(k[parent.len()].clone());
                }
            }
        }
        if exists || parent.is_empty() { Some(out) } else { None }
    }

    /// children set used for ls-subscriptions: an absent parent has the empty child set
    pub fn children(&self, parent: &[String]) -> BTreeSet<String> {
        self.ls(parent).unwrap_or_default()
    }

    /// union of the child sets of all existing parents matching the pattern (no `#`)
    pub fn pls(&self, pattern: &[PSeg]) -> BTreeSet<String> {
        let mut out = BTreeSet::new();
        for k in self.data.keys() {
            if k.len() > pattern.len() {
                let prefix = &k[..pattern.len()];
                if matches_doc(pattern, prefix) {
                    out.insert(k[pattern.len()].clone());
                }
            }
        }
        out
    }

    pub fn len(&self) -> usize {
        self.data.len()
    }

    // ---------------------------------------------------------------- protection ($SYS)

    /// C08: may client `c` write / delete the literal key?
    pub fn key_writable(&self, key: &str, c: Cid) -> bool {
        if c == INTERNAL {
            return true;
        }
        let p = split(key);
        if p[0] != SYS {
            return true;
        }
        p.len() == 4
            && p[1] == "clients"
            && p[2] == client_name(c)
            && (p[3] == "graveGoods" || p[3] == "lastWill" || p[3] == "clientName")
    }

    /// is this path under $SYS and not one of c's own three entries
    pub fn protected_from(&self, path: &[String], c: Cid) -> bool {
        if c == INTERNAL || path.is_empty() || path[0] != SYS {
            return false;
        }
        !(path.len() == 4
            && path[1] == "clients"
            && path[2] == client_name(c)
            && (path[3] == "graveGoods" || path[3] == "lastWill" || path[3] == "clientName"))
    }

    // ---------------------------------------------------------------- verdicts (C02)

    pub fn set_verdict(&self, key: &str, force: bool) -> SetVerdict {
        match self.get(key) {
            Some(Entry { cas: Some(_), .. }) if !force => SetVerdict::CasProtected,
            _ => SetVerdict::Ok,
        }
    }

    pub fn cset_verdict(&self, key: &str, version: u64) -> CsetVerdict {
        let current = self.get(key).map(|e| e.version()).unwrap_or(0);
        if current == version {
            CsetVerdict::Ok(version.wrapping_add(1))
        } else {
            CsetVerdict::VersionMismatch
        }
    }

    // ---------------------------------------------------------------- writes

    fn value_events(&self, fx: &mut Effects, path: &[String], value: &Value, deleted: bool, value_preserving: bool, optional_for_unique: bool) {
        let key = join(path);
        for s in &self.subs {
            if !matches_doc(&s.pattern, path) {
                continue;
            }
            let mut optional = false;
            if !deleted && s.unique && value_preserving {
                if optional_for_unique {
                    optional = true;
                } else {
                    fx.unique_suppressed += 1;
                    continue;
                }
            }
            fx.events.push(ExpEvent {
                client: s.client,
                tid: s.tid,
                key: key.clone(),
                value: value.clone(),
                deleted,
                optional,
            });
        }
    }

    fn note_sys(&self, fx: &mut Effects, path: &[String], actor: Cid) {
        if self.protected_from(path, actor) {
            fx.sys_touched_by_client.push(join(path));
        }
    }

    /// an accepted set (plain). `actor` only matters for C08 attribution.
    pub fn apply_set(&mut self, key: &str, value: Value, actor: Cid, fx: &mut Effects) {
        let path = split(key);
        let preserving = self.data.get(&path).map(|e| e.value == value).unwrap_or(false);
        self.note_sys(fx, &path, actor);
        self.data.insert(path.clone(), Entry::plain(value.clone()));
        self.value_events(fx, &path, &value, false, preserving, false);
    }

    /// an accepted cset with the given *carried* version
    pub fn apply_cset(&mut self, key: &str, value: Value, carried: u64, actor: Cid, fx: &mut Effects) {
        let path = split(key);
        let preserving = self.data.get(&path).map(|e| e.value == value).unwrap_or(false);
        self.note_sys(fx, &path, actor);
        self.data.insert(
            path.clone(),
            Entry {
                value: value.clone(),
                cas: Some(carried.wrapping_add(1)),
            },
        );
        self.value_events(fx, &path, &value, false, preserving, false);
    }

    pub fn apply_publish(&self, key: &str, value: Value, actor: Cid, fx: &mut Effects) {
        let path = split(key);
        self.note_sys(fx, &path, actor);
        self.value_events(fx, &path, &value, false, false, false);
    }

    pub fn apply_delete(&mut self, key: &str, actor: Cid, fx: &mut Effects) -> Option<Value> {
        let path = split(key);
        let old = self.data.remove(&path)?;
        self.note_sys(fx, &path, actor);
        self.value_events(fx, &path, &old.value, true, false, false);
        Some(old.value)
    }

    pub fn apply_pdelete(&mut self, pattern: &[PSeg], actor: Cid, fx: &mut Effects) -> Vec<(String, Value)> {
        let keys: Vec<Path> = self
            .data
            .keys()
            .filter(|k| self.q_matches(pattern, k))
            .cloned()
            .collect();
        let mut out = vec![];
        for k in keys {
            if let Some(e) = self.data.remove(&k) {
                self.note_sys(fx, &k, actor);
                self.value_events(fx, &k, &e.value, true, false, false);
                out.push((join(&k), e.value));
            }
        }
        out.sort_by(|a, b| a.0.cmp(&b.0));
        out
    }

    /// import: every contained key := contained entry verbatim
    pub fn apply_import(&mut self, entries: &[(String, Entry)], fx: &mut Effects) -> Vec<(String, Entry, bool)> {
        let mut out = vec![];
        for (key, entry) in entries {
            let path = split(key);
            let old = self.data.get(&path).cloned();
            let changed = old.as_ref() != Some(entry);
            let value_same = old.as_ref().map(|o| o.value == entry.value).unwrap_or(false);
            self.data.insert(path.clone(), entry.clone());
            // unchanged entry: suppressed for unique; changed only in kind/version: statement silent
            let preserving = value_same;
            let optional = value_same && changed;
            self.value_events(fx, &path, &entry.value, false, preserving, optional);
            out.push((key.clone(), entry.clone(), changed));
        }
        out
    }

    // ---------------------------------------------------------------- sessions

    pub fn apply_connect(&mut self, c: Cid, protocol: &str, fx: &mut Effects) {
        self.clients.insert(c, Client::default());
        let n = self.clients.len();
        self.apply_set("$SYS/clients", json!(n), INTERNAL, fx);
        self.apply_set(&format!("$SYS/clients/{}/protocol", client_name(c)), json!(protocol), INTERNAL, fx);
        self.apply_set(&format!("$SYS/clients/{}/address", client_name(c)), Value::Null, INTERNAL, fx);
    }

    pub fn registered_grave_goods(&self, c: Cid) -> Option<Vec<String>> {
        let v = &self.get(&format!("$SYS/clients/{}/graveGoods", client_name(c)))?.value;
        let arr = v.as_array()?;
        arr.iter().map(|e| e.as_str().map(|s| s.to_owned())).collect()
    }

    pub fn registered_last_will(&self, c: Cid) -> Option<Vec<(String, Value)>> {
        let v = &self.get(&format!("$SYS/clients/{}/lastWill", client_name(c)))?.value;
        let arr = v.as_array()?;
        arr.iter()
            .map(|e| {
                let o = e.as_object()?;
                let k = o.get("key")?.as_str()?.to_owned();
                let v = o.get("value")?.clone();
                Some((k, v))
            })
            .collect()
    }

    /// The session-end procedure of the statement of C07 (and Appendix B of DESIGN.md).
    /// `gg_verdict(pattern)` / `lw_verdict(key)`: whether the server accepts the bury / the
    /// last-will write where no property pins it (None = pinned by the model).
    pub fn apply_disconnect(&mut self, c: Cid, fx: &mut Effects) {
        // locks: release held ones (hand-over), cancel waiting requests
        let keys: Vec<Path> = self.locks.keys().cloned().collect();
        for k in keys {
            let lock = self.locks.get_mut(&k).expect("present");
            if lock.holder == c {
                self.release_held(&k, fx);
            } else if let Some(pos) = lock.queue.iter().position(|(w, _)| *w == c) {
                let (_, n) = lock.queue.remove(pos);
                fx.lock_events.push(LockEvent::Cancelled {
                    client: c,
                    key: join(&k),
                    n,
                });
            }
        }

        let grave_goods = self.registered_grave_goods(c);
        let last_will = self.registered_last_will(c);

        self.clients.remove(&c);
        let n = self.clients.len();
        self.apply_set("$SYS/clients", json!(n), INTERNAL, fx);

        self.subs.retain(|s| s.client != c);
        self.ls_subs.retain(|s| s.client != c);

        let own = parse_pattern(&format!("$SYS/clients/{}/#", client_name(c)));
        self.apply_pdelete(&own, INTERNAL, fx);

        if let Some(ggs) = grave_goods {
            for gg in ggs {
                if gg.is_empty() {
                    continue;
                }
                let pat = parse_pattern(&gg);
                if !pattern_valid(&pat) {
                    continue;
                }
                if !self.pattern_writable(&gg, c) {
                    continue;
                }
                self.apply_pdelete(&pat, c, fx);
            }
        }
        if let Some(lws) = last_will {
            for (k, v) in lws {
                if k.is_empty() || !self.key_writable(&k, c) {
                    continue;
                }
                let p = parse_pattern(&k);
                if has_wildcard(&p) {
                    continue;
                }
                self.apply_set(&k, v, c, fx);
            }
        }
    }

    /// C08 applied to a pattern the way the statement demands it for literal first segments
    pub fn pattern_writable(&self, pattern: &str, c: Cid) -> bool {
        self.key_writable(pattern, c)
    }

    // ---------------------------------------------------------------- locks (C06)

    fn release_held(&mut self, k: &Path, fx: &mut Effects) {
        let lock = self.locks.get_mut(k).expect("present");
        if lock.queue.is_empty() {
            self.locks.remove(k);
        } else {
            let (next, n) = lock.queue.remove(0);
            lock.holder = next;
            fx.lock_events.push(LockEvent::Granted {
                client: next,
                key: join(k),
                n,
            });
        }
    }

    pub fn holder(&self, key: &str) -> Option<Cid> {
        self.locks.get(&split(key)).map(|l| l.holder)
    }

    pub fn is_waiting(&self, key: &str, c: Cid) -> bool {
        self.locks
            .get(&split(key))
            .map(|l| l.queue.iter().any(|(w, _)| *w == c))
            .unwrap_or(false)
    }

    /// true = Ok, false = KeyIsLocked
    pub fn apply_lock(&mut self, key: &str, c: Cid) -> bool {
        let k = split(key);
        match self.locks.get(&k) {
            None => {
                self.locks.insert(k, Lock { holder: c, queue: vec![] });
                true
            }
            Some(l) => l.holder == c,
        }
    }

    /// true = granted at once, false = pending
    pub fn apply_acquire(&mut self, key: &str, c: Cid) -> bool {
        let k = split(key);
        match self.locks.get_mut(&k) {
            None => {
                self.locks.insert(k, Lock { holder: c, queue: vec![] });
                true
            }
            Some(l) if l.holder == c => true,
            Some(l) => {
                if let Some(e) = l.queue.iter_mut().find(|(w, _)| *w == c) {
                    e.1 += 1;
                } else {
                    l.queue.push((c, 1));
                }
                false
            }
        }
    }

    /// Ok(()) released; Err(true) = key is locked by someone else; Err(false) = key not locked
    pub fn apply_release(&mut self, key: &str, c: Cid, fx: &mut Effects) -> Result<(), bool> {
        let k = split(key);
        match self.locks.get(&k) {
            None => Err(false),
            Some(l) if l.holder == c => {
                self.release_held(&k, fx);
                Ok(())
            }
            Some(_) => Err(true),
        }
    }
}

/// does a plain JSON value look like the persistence format's own CAS tag (known finding D10)
pub fn looks_like_cas_tag(v: &Value) -> bool {
    if let Some(o) = v.as_object()
        && o.len() == 1
        && let Some(a) = o.get("Cas").and_then(|c| c.as_array())
    {
        return a.len() == 2 && a[1].is_u64();
    }
    false
}

/// render entries as the JSON text accepted by `import` / written by the persistence layer
pub fn render_store_json(entries: &[(String, Entry)]) -> String {
    fn insert(node: &mut serde_json::Map<String, Value>, path: &[String], entry: &Entry) {
        if path.is_empty() {
            let v = match entry.cas {
                None => entry.value.clone(),
                Some(n) => json!({"Cas": [entry.value, n]}),
            };
            node.insert("v".to_owned(), v);
            return;
        }
        let t = node
            .entry("t".to_owned())
            .or_insert_with(|| Value::Object(Default::default()))
            .as_object_mut()
            .expect("object");
        let child = t
            .entry(path[0].clone())
            .or_insert_with(|| Value::Object(Default::default()))
            .as_object_mut()
            .expect("object");
        insert(child, &path[1..], entry);
    }
    let mut root = serde_json::Map::new();
    for (k, e) in entries {
        insert(&mut root, &split(k), e);
    }
    json!({ "data": Value::Object(root) }).to_string()
}

#[cfg(test)]
mod test {
    use super::*;

    #[test]
    fn relation() {
        let k = |s: &str| split(s);
        let p = |s: &str| parse_pattern(s);
        assert!(matches_doc(&p("a/?"), &k("a/b")));
        assert!(!matches_doc(&p("a/?"), &k("a")));
        assert!(!matches_doc(&p("a/?"), &k("a/b/c")));
        assert!(matches_doc(&p("a/#"), &k("a/b/c")));
        assert!(!matches_doc(&p("a/#"), &k("a")));
        assert!(matches_prefix_too(&p("a/#"), &k("a")));
        assert!(matches_doc(&p("#"), &k("a")));
        assert!(matches_doc(&p("#"), &k("")));
        assert!(!matches_prefix_too(&p("a/#"), &k("b")));
        assert!(is_prefix_hash_pair(&p("a/#"), &k("a")));
        assert!(!is_prefix_hash_pair(&p("#"), &k("a")));
        assert!(matches_doc(&p("?/"), &k("a/")));
    }
}
