//! Generators for JSON values (with format colliders) shared by C09, C10, C14, C17 …

use proptest::prelude::*;
use serde_json::{Value, json};

pub fn finite_f64() -> BoxedStrategy<f64> {
    prop_oneof![
        4 => any::<u64>().prop_map(f64::from_bits).prop_filter_map("finite", |f| if f.is_finite() { Some(f) } else { None }),
        2 => (-1000i32..1000, 1..1000i32).prop_map(|(a, b)| a as f64 / b as f64),
        1 => Just(0.1),
        1 => Just(1e300),
        1 => Just(5e-324),
        1 => Just(-0.0),
    ]
    .boxed()
}

pub fn number(floats: bool) -> BoxedStrategy<Value> {
    let ints = prop_oneof![
        4 => (-5i64..100).prop_map(|n| json!(n)),
        1 => Just(json!(i64::MIN)),
        1 => Just(json!(i64::MAX)),
        1 => Just(json!(u64::MAX)),
        1 => Just(json!(u64::MAX - 1)),
        1 => any::<i64>().prop_map(|n| json!(n)),
        1 => any::<u64>().prop_map(|n| json!(n)),
    ];
    if floats {
        prop_oneof![3 => ints, 2 => finite_f64().prop_map(|f| json!(f))].boxed()
    } else {
        ints.boxed()
    }
}

pub fn string() -> BoxedStrategy<String> {
    prop_oneof![
        4 => "[a-z]{0,6}",
        1 => Just("line\nbreak".to_owned()),
        1 => Just("cr\rlf\r\n".to_owned()),
        1 => Just("a/b/#/?".to_owned()),
        1 => Just("\u{2028}\u{2029}".to_owned()),
        1 => Just("quote\"back\\slash".to_owned()),
        1 => Just("ünï©ødé 日本 🦀".to_owned()),
        1 => Just("\u{0}\u{1f}".to_owned()),
        1 => Just("".to_owned()),
    ]
    .boxed()
}

fn obj_key() -> BoxedStrategy<String> {
    prop_oneof![
        4 => "[a-z]{1,4}",
        1 => Just("v".to_owned()),
        1 => Just("t".to_owned()),
        1 => Just("Cas".to_owned()),
        1 => Just("data".to_owned()),
        1 => Just("transactionId".to_owned()),
        1 => Just("value".to_owned()),
        1 => Just("key".to_owned()),
        1 => Just("deleted".to_owned()),
        1 => Just("keyValuePairs".to_owned()),
        1 => Just("".to_owned()),
    ]
    .boxed()
}

/// objects that look like pieces of the wire / persistence formats
pub fn collider(cas_lookalike: bool) -> BoxedStrategy<Value> {
    let mut alts: Vec<(u32, BoxedStrategy<Value>)> = vec![
        (2, Just(json!({"v": 1, "t": {"x": {"v": 2}}})).boxed()),
        (2, Just(json!({"data": {"t": {}}})).boxed()),
        (1, Just(json!({"transactionId": 1, "value": 2})).boxed()),
        (1, Just(json!({"transactionId": 1, "deleted": 2})).boxed()),
        (1, Just(json!({"keyValuePairs": [{"key": "a", "value": 1}]})).boxed()),
        (1, Just(json!({"Cas": [1]})).boxed()),
        (1, Just(json!({"Cas": [1, 2, 3]})).boxed()),
        (1, Just(json!({"Cas": [1, -2]})).boxed()),
        (1, Just(json!({"Cas": [1, 2], "x": 1})).boxed()),
        (1, Just(json!({"Cas": "x"})).boxed()),
        (1, Just(json!({"Plain": 1})).boxed()),
        (1, Just(json!(["graveGoods"])).boxed()),
        (1, Just(json!([{"key": "a", "value": 1}])).boxed()),
        (1, Just(json!({"grave_goods": [], "last_will": []})).boxed()),
    ];
    if cas_lookalike {
        alts.push((3, Just(json!({"Cas": [1, 2]})).boxed()));
        alts.push((1, Just(json!({"Cas": [{"Cas": [1, 2]}, 0]})).boxed()));
    }
    proptest::strategy::Union::new_weighted(alts).boxed()
}

/// arbitrary nested JSON; `floats`: include non-integer numbers; `cas_lookalike`: include plain
/// values of exactly the shape {"Cas":[v,n]} (known finding D10)
pub fn value(floats: bool, cas_lookalike: bool) -> BoxedStrategy<Value> {
    let leaf = prop_oneof![
        2 => Just(Value::Null),
        2 => any::<bool>().prop_map(|b| json!(b)),
        6 => number(floats),
        4 => string().prop_map(|s| json!(s)),
        2 => collider(cas_lookalike),
    ];
    leaf.prop_recursive(3, 24, 5, move |inner| {
        prop_oneof![
            2 => proptest::collection::vec(inner.clone(), 0..5).prop_map(Value::Array),
            3 => proptest::collection::vec((obj_key(), inner), 0..5).prop_map(|kvs| {
                let mut m = serde_json::Map::new();
                for (k, v) in kvs {
                    m.insert(k, v);
                }
                Value::Object(m)
            }),
        ]
    })
    // the recursive construction can assemble the exact shape {"Cas":[v,n]} by chance; without
    // `cas_lookalike` such a value is wrapped (only the top level shape of a stored value matters: D10)
    .prop_map(move |v| if !cas_lookalike && crate::model::looks_like_cas_tag(&v) { json!([v]) } else { v })
    .boxed()
}

/// does the value contain a number that is not an integer (for float related classification)
pub fn has_float(v: &Value) -> bool {
    match v {
        Value::Number(n) => !(n.is_i64() || n.is_u64()),
        Value::Array(a) => a.iter().any(has_float),
        Value::Object(o) => o.values().any(has_float),
        _ => false,
    }
}

pub fn node_count(v: &Value) -> usize {
    match v {
        Value::Array(a) => 1 + a.iter().map(node_count).sum::<usize>(),
        Value::Object(o) => 1 + o.values().map(node_count).sum::<usize>(),
        _ => 1,
    }
}

/// contains somewhere a plain-value shape {"Cas":[x,<u64>]} (D10 trigger when stored as a plain value at top level)
pub fn is_cas_lookalike(v: &Value) -> bool {
    crate::model::looks_like_cas_tag(v)
}
