//! Runs a coverage-guided libFuzzer campaign (cargo-fuzz package /verif/fuzzing) as one part of a
//! thorough check and folds its statistics into the evidence.

use crate::evidence::Check;
use crate::util::{Agg, Failure, RunCfg, verif_root};
use serde_json::json;
use std::process::Command;

pub struct Campaign<'a> {
    pub target: &'a str,
    pub server_feature: bool,
    pub runs: u64,
    pub max_len: u32,
    pub rule: &'a str,
}

/// returns false if the campaign could not be run (build failure …): that is noted, not a violation
pub fn run_campaign(check: &mut Check, cfg: &RunCfg, c: &Campaign) -> bool {
    let dir = verif_root().join("fuzzing");
    let work = verif_root().join("harness/target/fuzz-work").join(c.target).join(std::process::id().to_string());
    let artifacts = verif_root().join("replays").join(&cfg.prop);
    std::fs::create_dir_all(&work).ok();
    std::fs::create_dir_all(&artifacts).ok();
    let seed_corpus = dir.join("fuzz/corpus").join(c.target);
    let seed = if cfg.seed == 0 { 1 } else { cfg.seed };
    let mut cmd = Command::new("cargo");
    cmd.current_dir(&dir).env("CARGO_NET_OFFLINE", "true").arg("+nightly").arg("fuzz").arg("run").arg("-s").arg("none");
    if c.server_feature {
        cmd.arg("--features").arg("server");
    }
    cmd.arg(c.target)
        .arg(&work)
        .arg(&seed_corpus)
        .arg("--")
        .arg(format!("-runs={}", c.runs))
        .arg(format!("-seed={seed}"))
        .arg(format!("-max_len={}", c.max_len))
        .arg("-len_control=0")
        .arg("-print_final_stats=1")
        .arg("-timeout=60")
        .arg(format!("-artifact_prefix={}/fuzz-{}-", artifacts.display(), c.target));
    let out = match cmd.output() {
        Ok(o) => o,
        Err(e) => {
            check.notes.push(format!("libFuzzer campaign {} could not be started: {e}", c.target));
            return false;
        }
    };
    let stderr = String::from_utf8_lossy(&out.stderr).to_string();
    let stat = |name: &str| -> u64 {
        stderr
            .lines()
            .find(|l| l.starts_with(&format!("stat::{name}:")))
            .and_then(|l| l.split(':').next_back())
            .and_then(|v| v.trim().parse().ok())
            .unwrap_or(0)
    };
    let executed = stat("number_of_executed_units");
    let new_units = stat("new_units_added");
    std::fs::remove_dir_all(&work).ok();
    let mut agg = Agg::default();
    agg.evaluations = executed;
    agg.nontrivial = new_units;
    // distinct non-trivial = inputs that reached new coverage (libFuzzer's own count)
    for i in 0..new_units {
        agg.distinct_nontrivial.insert(crate::util::mix(i, c.target, 0));
    }
    agg.samples.push(json!(format!("libFuzzer target {} with seed corpus {}", c.target, seed_corpus.display())));
    let crashed = !out.status.success();
    if executed == 0 && !crashed {
        check.notes.push(format!("libFuzzer campaign {} did not run (build problem?): {}", c.target, stderr.lines().rev().take(5).collect::<Vec<_>>().join(" | ")));
        return false;
    }
    let part = check.add_part(&format!("libfuzzer-{}", c.target), c.rule, false, agg);
    part.extra.insert("libfuzzer_new_units".into(), json!(new_units));
    if crashed {
        let artifact = stderr
            .lines()
            .find(|l| l.contains("Test unit written to"))
            .and_then(|l| l.split("Test unit written to ").nth(1))
            .map(|s| s.trim().to_owned());
        if executed == 0 && artifact.is_none() {
            check.notes.push(format!("libFuzzer campaign {} failed to build or start: {}", c.target, stderr.lines().rev().take(8).collect::<Vec<_>>().join(" | ")));
            return false;
        }
        let msg: Vec<&str> = stderr.lines().filter(|l| l.contains("panicked") || l.contains("oracle failure") || l.contains("ERROR: libFuzzer")).take(4).collect();
        let f = Failure::new("libfuzzer.crash", "no crash / oracle failure in the fuzz target", msg.join(" | ")).sig(json!({"obs": "libfuzzer.crash", "target": c.target}));
        check.violate(&format!("libfuzzer-{}", c.target), &json!({"target": c.target, "artifact": artifact}), f);
    }
    true
}
