//! Evidence file writer, known-finding list, replay files and the final verdict of a check.

use crate::util::{Agg, Failure, RunCfg, verif_root};
use serde::{Deserialize, Serialize};
use serde_json::{Value, json};
use std::collections::BTreeMap;
use std::time::Instant;

#[derive(Clone, Debug, Serialize, Deserialize)]
pub struct KnownFinding {
    pub id: String,
    pub properties: Vec<String>,
    /// "open" or "fixed"
    pub status: String,
    /// every field must be equal in the failure's signature for the finding to match
    pub signature: Value,
    pub what_fails: String,
    #[serde(default)]
    pub witness: Option<String>,
    #[serde(default)]
    pub commit: Option<String>,
    #[serde(default)]
    pub record: Option<String>,
}

#[derive(Clone, Debug, Default, Serialize, Deserialize)]
pub struct KnownFindings {
    pub findings: Vec<KnownFinding>,
}

impl KnownFindings {
    pub fn load() -> Self {
        let p = verif_root().join("known_findings.json");
        match std::fs::read_to_string(&p) {
            Ok(s) => serde_json::from_str(&s).unwrap_or_else(|e| {
                eprintln!("known_findings.json is invalid: {e}");
                std::process::exit(2);
            }),
            Err(_) => KnownFindings::default(),
        }
    }

    /// the open finding of `prop` whose signature is contained in `sig`
    pub fn matching(&self, prop: &str, sig: &Value) -> Option<&KnownFinding> {
        self.findings.iter().find(|f| {
            f.status == "open" && f.properties.iter().any(|p| p == prop) && subset(&f.signature, sig)
        })
    }

    pub fn open_for(&self, prop: &str) -> Vec<&KnownFinding> {
        self.findings
            .iter()
            .filter(|f| f.status == "open" && f.properties.iter().any(|p| p == prop))
            .collect()
    }
}

fn subset(a: &Value, b: &Value) -> bool {
    match (a, b) {
        (Value::Object(a), Value::Object(b)) => !a.is_empty() && a.iter().all(|(k, v)| b.get(k).map(|w| subset(v, w)).unwrap_or(false)),
        (Value::Object(_), _) => false,
        (a, b) => a == b,
    }
}

pub struct Part {
    pub name: String,
    pub rule: String,
    pub exhaustive: bool,
    pub agg: Agg,
    pub extra: BTreeMap<String, Value>,
}

pub struct Check {
    pub cfg: RunCfg,
    pub level: &'static str,
    pub started: Instant,
    pub parts: Vec<Part>,
    pub assumptions: Vec<String>,
    pub kf: KnownFindings,
    pub violation: Option<(String, Value, Failure)>,
    pub notes: Vec<String>,
}

impl Check {
    pub fn new(cfg: &RunCfg, level: &'static str) -> Self {
        Check {
            cfg: cfg.clone(),
            level,
            started: Instant::now(),
            parts: vec![],
            assumptions: vec![],
            kf: KnownFindings::load(),
            violation: None,
            notes: vec![],
        }
    }

    pub fn assume(&mut self, s: &str) {
        self.assumptions.push(s.to_owned());
    }

    pub fn add_part(&mut self, name: &str, rule: &str, exhaustive: bool, agg: Agg) -> &mut Part {
        self.parts.push(Part {
            name: name.to_owned(),
            rule: rule.to_owned(),
            exhaustive,
            agg,
            extra: BTreeMap::new(),
        });
        self.parts.last_mut().expect("just pushed")
    }

    /// record a violation (first one wins); the case is written as a replay file
    pub fn violate<T: Serialize>(&mut self, part: &str, case: &T, failure: Failure) {
        if self.violation.is_none() {
            self.violation = Some((part.to_owned(), serde_json::to_value(case).unwrap_or(Value::Null), failure));
        }
    }

    pub fn has_violation(&self) -> bool {
        self.violation.is_some()
    }

    /// write evidence, print KNOWN-FINDING / VIOLATION lines, return the exit code
    pub fn finish(mut self) -> i32 {
        let prop = self.cfg.prop.clone();
        let root = verif_root();
        let wall = self.started.elapsed().as_secs_f64();
        let forced = crate::wire::forced_shutdowns();
        if forced > 0 {
            self.notes.push(format!("{forced} in-process server(s) did not finish their shutdown within the harness' 20 s budget and were stopped by force (not judged: no listed property is about how fast a server stops)"));
        }

        let mut evaluations = 0u64;
        let mut distinct = 0u64;
        let mut samples: Vec<Value> = vec![];
        let mut parts_json = vec![];
        let mut kf_obs: BTreeMap<String, u64> = BTreeMap::new();
        let mut rules = vec![];
        let mut inconclusive = 0;
        let all_exhaustive = !self.parts.is_empty() && self.parts.iter().all(|p| p.exhaustive);
        for p in &self.parts {
            evaluations += p.agg.evaluations;
            distinct += p.agg.distinct_nontrivial.len() as u64;
            inconclusive += p.agg.inconclusive;
            for s in p.agg.samples.iter().take(3) {
                if samples.len() < 8 {
                    samples.push(json!({"part": p.name, "case": s}));
                }
            }
            for (k, v) in &p.agg.kf {
                *kf_obs.entry(k.clone()).or_default() += v;
            }
            rules.push(format!("[{}] {}", p.name, p.rule));
            let health = if p.agg.evaluations > 0 && (p.agg.nontrivial as f64) < 0.05 * p.agg.evaluations as f64 {
                "weak"
            } else {
                "ok"
            };
            let mut pj = json!({
                "name": p.name,
                "evaluations": p.agg.evaluations,
                "nontrivial": p.agg.nontrivial,
                "distinct_nontrivial": p.agg.distinct_nontrivial.len(),
                "exhaustive": p.exhaustive,
                "classes": p.agg.classes,
                "counters": p.agg.counters,
                "excluded_by_construction": p.agg.excluded,
                "known_findings_observed": p.agg.kf,
                "inconclusive_cases": p.agg.inconclusive,
                "generator_health": health,
            });
            for (k, v) in &p.extra {
                pj[k] = v.clone();
            }
            parts_json.push(pj);
        }
        if samples.is_empty() {
            samples.push(json!("no non-trivial case was generated in this run"));
        }

        let mut violations = 0;
        let mut replay_path = None;
        if let Some((part, case, failure)) = &self.violation {
            violations = 1;
            let dir = root.join("replays").join(&prop);
            std::fs::create_dir_all(&dir).ok();
            let h = crate::util::hash_json(&json!([part, case]));
            let path = dir.join(format!("{:016x}.json", h));
            let body = json!({
                "property": prop,
                "part": part,
                "seed": self.cfg.seed,
                "tier": self.cfg.tier.name(),
                "case": case,
                "failure": failure,
            });
            std::fs::write(&path, serde_json::to_string_pretty(&body).unwrap_or_default()).ok();
            replay_path = Some(path);
        }

        let ev = json!({
            "property_id": prop,
            "tier": self.cfg.tier.name(),
            "seed": self.cfg.seed,
            "level": self.level,
            "coverage": {
                "evaluations": evaluations,
                "distinct_nontrivial": distinct,
                "rule": rules.join(" || "),
                "samples": samples,
                "exhaustive": all_exhaustive,
                "parts": parts_json,
                "known_findings_observed": kf_obs,
                "inconclusive_cases": inconclusive,
                "notes": self.notes,
            },
            "assumptions": self.assumptions,
            "wall_s": wall,
            "violations": violations,
        });
        let edir = root.join("evidence");
        std::fs::create_dir_all(&edir).ok();
        let epath = edir.join(format!("{prop}.json"));
        if let Err(e) = std::fs::write(&epath, serde_json::to_string_pretty(&ev).unwrap_or_default()) {
            eprintln!("cannot write evidence file {}: {e}", epath.display());
            return 2;
        }

        for f in self.kf.open_for(&prop) {
            let n = kf_obs.get(&f.id).copied().unwrap_or(0);
            println!("KNOWN-FINDING: property={} {} [{}] (observed {} times in this run)", prop, f.what_fails, f.id, n);
        }
        println!(
            "{} {}: {} evaluations, {} distinct non-trivial, {:.1}s{}",
            prop,
            self.cfg.tier.name(),
            evaluations,
            distinct,
            wall,
            if inconclusive > 0 { format!(", {inconclusive} inconclusive cases dropped") } else { String::new() }
        );
        if let Some(path) = replay_path {
            if let Some((part, _, f)) = &self.violation {
                println!("failure in part {part}: {} expected {} actual {}", f.obs, f.expected, f.actual);
            }
            println!("VIOLATION property={} replay={}", prop, path.display());
            return 1;
        }
        0
    }
}
