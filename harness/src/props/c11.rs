//! C11 A follower converges to the leader's data.

use crate::cluster::*;
use crate::evidence::{Check, KnownFindings};
use crate::interp::uuid;
use crate::model::{Entry, INTERNAL, parse_pattern, pattern_valid, render_store_json, split};
use crate::ops;
use crate::server::Server;
use crate::util::{CaseReport, Failure, RunCfg, block_on, run_prop};
use proptest::prelude::*;
use serde::{Deserialize, Serialize};
use serde_json::{Value, json};
use std::collections::{BTreeMap, BTreeSet};
use worterbuch_common::error::WorterbuchError;
use worterbuch_common::{Protocol, WbApi};

#[derive(Clone, Debug, PartialEq, Serialize, Deserialize)]
pub enum Ver {
    Current,
    Stale,
    Zero,
}

#[derive(Clone, Debug, PartialEq, Serialize, Deserialize)]
pub enum LOp {
    Connect(u8),
    Disconnect(u8),
    Set(u8, String, Value),
    CSet(u8, String, Value, Ver),
    Delete(u8, String),
    PDelete(u8, String),
    Import(Vec<(String, Value, Option<u64>)>),
    GraveGoods(u8, Vec<String>),
    LastWill(u8, Vec<(String, Value)>),
    /// a follower joins here
    Join,
    /// quiescent point: every joined follower is compared with the leader
    Check,
}

#[derive(Clone, Debug, PartialEq, Serialize, Deserialize)]
pub struct Case {
    pub ops: Vec<LOp>,
    /// include the trigger shapes of the listed known findings (registrations before the join,
    /// session ends with effective registrations, imports of CAS entries)
    pub with_known_finding_shapes: bool,
}

pub fn cid(c: u8) -> uuid::Uuid {
    uuid(9000 + (c % 3) as u128)
}

pub struct Follower {
    pub server: Server,
    /// registration keys that existed on the leader when this follower joined and have not been rewritten since
    pub missing_regs: BTreeSet<String>,
}

#[derive(Default)]
pub struct Stats {
    pub writes_before_join: u64,
    pub writes_after_join: u64,
    pub rejected: u64,
    pub disconnects: u64,
    pub disconnects_with_effect: u64,
    pub checks: u64,
    pub kf: Vec<String>,
    pub excluded: u64,
}

pub struct Driver {
    pub leader: Server,
    pub port: u16,
    pub followers: Vec<Follower>,
    pub connected: BTreeSet<u8>,
    pub tainted: BTreeSet<String>,
    pub cas_imported: BTreeSet<String>,
    pub marker: u64,
    pub stats: Stats,
    pub kf_shapes: bool,
}

/// keys a client may put into a set / cset / delete request in this check: everything that does not
/// reach $SYS or the marker key, including keys the leader rejects (empty key, wildcard segments) -
/// a rejected request is forwarded as well and must leave the follower unchanged too
fn requestable(key: &str) -> bool {
    !key.starts_with("$SYS") && key != "verif/marker"
}

fn is_literal(key: &str) -> bool {
    !key.is_empty() && !key.split('/').any(|s| s == "?" || s == "#") && !key.starts_with("$SYS") && key != "verif/marker"
}

impl Driver {
    pub async fn leader_op(&mut self, op: &LOp, follower_cfg: &dyn Fn(u16) -> worterbuch::Config) -> Result<(), Failure> {
        let api = self.leader.api.clone();
        let joined = !self.followers.is_empty();
        let mut count = |ok: bool, s: &mut Stats| {
            if ok {
                if joined { s.writes_after_join += 1 } else { s.writes_before_join += 1 }
            } else {
                s.rejected += 1;
            }
        };
        match op {
            LOp::Connect(c) => {
                let c = c % 3;
                if self.connected.insert(c) {
                    api.connected(cid(c), None, Protocol::TCP).await.map_err(|e| Failure::new("c11.connect", "Ok", e.to_string()))?;
                }
            }
            LOp::Disconnect(c) => {
                let c = c % 3;
                if !self.connected.contains(&c) {
                    return Ok(());
                }
                let before = user_state(&self.leader).await?;
                // would this session end change user keys? (grave goods matching something, a last will)
                let gg = api.get(format!("$SYS/clients/{}/graveGoods", cid(c))).await.ok();
                let lw = api.get(format!("$SYS/clients/{}/lastWill", cid(c))).await.ok();
                let lw_nonempty = lw.as_ref().and_then(|v| v.as_array()).map(|a| !a.is_empty()).unwrap_or(false);
                let gg_matches = gg
                    .as_ref()
                    .and_then(|v| v.as_array())
                    .map(|a| {
                        a.iter().filter_map(|p| p.as_str()).any(|p| {
                            let pat = parse_pattern(p);
                            pattern_valid(&pat) && before.iter().any(|(k, _, _)| crate::model::matches_prefix_too(&pat, &split(k)))
                        })
                    })
                    .unwrap_or(false);
                if (lw_nonempty || gg_matches) && joined && !self.kf_shapes {
                    // known finding D12b: effects of a session end are not replicated - excluded by construction
                    self.stats.excluded += 1;
                    return Ok(());
                }
                self.connected.remove(&c);
                api.disconnected(cid(c), None).await.map_err(|e| Failure::new("c11.disconnect", "Ok", e.to_string()))?;
                self.stats.disconnects += 1;
                let after = user_state(&self.leader).await?;
                if before != after {
                    self.stats.disconnects_with_effect += 1;
                    if joined {
                        let b: BTreeMap<&String, (&Value, u64)> = before.iter().map(|(k, v, n)| (k, (v, *n))).collect();
                        let a: BTreeMap<&String, (&Value, u64)> = after.iter().map(|(k, v, n)| (k, (v, *n))).collect();
                        for k in b.keys().chain(a.keys()) {
                            if b.get(k) != a.get(k) {
                                self.tainted.insert((*k).clone());
                            }
                        }
                    }
                }
                for f in self.followers.iter_mut() {
                    f.missing_regs.retain(|k| !k.contains(&cid(c).to_string()));
                }
            }
            LOp::Set(c, key, value) => {
                // a plain value of the shape {"Cas":[v,n]} is ambiguous in the store tree format
                // (listed known finding D10 of C09): not generated here
                if !requestable(key) || crate::model::looks_like_cas_tag(value) {
                    return Ok(());
                }
                let r = api.set(key.clone(), value.clone(), cid(*c)).await;
                count(r.is_ok(), &mut self.stats);
            }
            LOp::CSet(c, key, value, ver) => {
                if !requestable(key) {
                    return Ok(());
                }
                let cur = api.cget(key.clone()).await.map(|x| x.1).unwrap_or(0);
                let v = match ver {
                    Ver::Current => cur,
                    Ver::Stale => cur.saturating_sub(1),
                    Ver::Zero => 0,
                };
                if v == u64::MAX {
                    return Ok(());
                }
                let r = api.cset(key.clone(), value.clone(), v, cid(*c)).await;
                count(r.is_ok(), &mut self.stats);
            }
            LOp::Delete(c, key) => {
                if !requestable(key) {
                    return Ok(());
                }
                let r = api.delete(key.clone(), cid(*c)).await;
                count(r.is_ok(), &mut self.stats);
            }
            LOp::PDelete(c, pattern) => {
                if pattern.is_empty() || pattern.starts_with("$SYS") || pattern.starts_with('#') || pattern.starts_with("?") || pattern.starts_with("verif") {
                    // patterns that reach $SYS or the marker are not part of this check
                    return Ok(());
                }
                let r = api.pdelete(pattern.clone(), cid(*c)).await;
                count(r.is_ok(), &mut self.stats);
            }
            LOp::Import(entries) => {
                let es: Vec<(String, Entry)> = entries
                    .iter()
                    .filter(|(k, v, _)| is_literal(k) && !crate::model::looks_like_cas_tag(v))
                    .map(|(k, v, cas)| (k.clone(), Entry { value: v.clone(), cas: if self.kf_shapes { *cas } else { None } }))
                    .collect();
                if es.is_empty() {
                    return Ok(());
                }
                if joined {
                    for (k, e) in &es {
                        if e.cas.is_some() {
                            self.cas_imported.insert(k.clone());
                        }
                    }
                }
                let r = api.import(render_store_json(&es)).await;
                count(r.is_ok(), &mut self.stats);
            }
            LOp::GraveGoods(c, patterns) => {
                let c = c % 3;
                if !self.connected.contains(&c) || (!joined && !self.kf_shapes) {
                    return Ok(());
                }
                let key = format!("$SYS/clients/{}/graveGoods", cid(c));
                let pats: Vec<&String> = patterns.iter().filter(|p| !p.starts_with("$SYS") && !p.starts_with('#') && !p.starts_with('?') && !p.starts_with("verif")).collect();
                // a registration is forwarded to the followers when its value changes
                let changed = api.get(key.clone()).await.ok() != Some(json!(pats));
                api.set(key.clone(), json!(pats), cid(c)).await.map_err(|e| Failure::new("c11.gg", "Ok", e.to_string()))?;
                if changed {
                    for f in self.followers.iter_mut() {
                        f.missing_regs.remove(&key);
                    }
                }
            }
            LOp::LastWill(c, will) => {
                let c = c % 3;
                if !self.connected.contains(&c) || (!joined && !self.kf_shapes) {
                    return Ok(());
                }
                let key = format!("$SYS/clients/{}/lastWill", cid(c));
                let v: Vec<Value> = will.iter().filter(|(k, v)| is_literal(k) && !crate::model::looks_like_cas_tag(v)).map(|(k, v)| json!({"key": k, "value": v})).collect();
                let changed = api.get(key.clone()).await.ok() != Some(Value::Array(v.clone()));
                api.set(key.clone(), Value::Array(v), cid(c)).await.map_err(|e| Failure::new("c11.lw", "Ok", e.to_string()))?;
                if changed {
                    for f in self.followers.iter_mut() {
                        f.missing_regs.remove(&key);
                    }
                }
            }
            LOp::Join => {
                if self.followers.len() >= 2 {
                    return Ok(());
                }
                let regs = registrations(&self.leader).await?;
                let server = Server::start(follower_cfg(self.port)).await.map_err(|e| Failure::new("c11.follower", "follower starts", e))?;
                self.followers.push(Follower { server, missing_regs: regs.into_iter().map(|(k, _)| k).collect() });
            }
            LOp::Check => self.check().await?,
        }
        Ok(())
    }

    pub async fn check(&mut self) -> Result<(), Failure> {
        if self.followers.is_empty() {
            return Ok(());
        }
        self.stats.checks += 1;
        self.marker += 1;
        let l_state = user_state(&self.leader).await?;
        let l_regs = registrations(&self.leader).await?;
        for (fi, f) in self.followers.iter().enumerate() {
            quiesce(&self.leader, &f.server, self.marker * 10 + fi as u64).await?;
            let f_state = user_state(&f.server).await?;
            let l: BTreeMap<&String, (&Value, u64)> = l_state.iter().map(|(k, v, n)| (k, (v, *n))).collect();
            let fo: BTreeMap<&String, (&Value, u64)> = f_state.iter().map(|(k, v, n)| (k, (v, *n))).collect();
            let keys: BTreeSet<&String> = l.keys().chain(fo.keys()).cloned().collect();
            for k in keys {
                if l.get(k) == fo.get(k) {
                    continue;
                }
                if self.tainted.contains(k) {
                    self.stats.kf.push("D12b".to_owned());
                    continue;
                }
                if self.cas_imported.contains(k) {
                    self.stats.kf.push("D12c".to_owned());
                    continue;
                }
                return Err(Failure::new(
                    "c11.user_keys",
                    format!("follower {fi} holds {k} = {:?} like the leader", l.get(k)),
                    format!("{:?}", fo.get(k)),
                )
                .sig(json!({"obs": "c11.user_keys"})));
            }
            let f_regs = registrations(&f.server).await?;
            let lr: BTreeMap<&String, &Value> = l_regs.iter().map(|(k, v)| (k, v)).collect();
            let fr: BTreeMap<&String, &Value> = f_regs.iter().map(|(k, v)| (k, v)).collect();
            let keys: BTreeSet<&String> = lr.keys().chain(fr.keys()).cloned().collect();
            for k in keys {
                if lr.get(k) == fr.get(k) {
                    continue;
                }
                if f.missing_regs.contains(k) && fr.get(k).is_none() {
                    self.stats.kf.push("D12a".to_owned());
                    continue;
                }
                return Err(Failure::new(
                    "c11.registrations",
                    format!("follower {fi} holds the registration {k} = {:?} of a client connected to the leader", lr.get(k)),
                    format!("{:?}", fr.get(k)),
                )
                .sig(json!({"obs": "c11.registrations"})));
            }
        }
        Ok(())
    }

    /// every write offered to a follower directly is refused with NotLeader and changes nothing
    pub async fn follower_refuses_writes(&self) -> Result<(), Failure> {
        for (fi, f) in self.followers.iter().enumerate() {
            let before = user_state(&f.server).await?;
            let api = &f.server.api;
            let me = uuid(9900);
            let k = "refused/key".to_owned();
            let mut results: Vec<(&str, bool)> = vec![];
            let nl = |r: Result<(), WorterbuchError>| matches!(r, Err(WorterbuchError::NotLeader));
            results.push(("set", nl(api.set(k.clone(), json!(1), me).await)));
            results.push(("cset", nl(api.cset(k.clone(), json!(1), 0, me).await)));
            results.push(("spub_init", nl(api.spub_init(1, k.clone(), me).await)));
            results.push(("spub", nl(api.spub(1, json!(1), me).await)));
            results.push(("publish", nl(api.publish(k.clone(), json!(1)).await)));
            results.push(("lock", nl(api.lock(k.clone(), me).await)));
            results.push(("acquire_lock", nl(api.acquire_lock(k.clone(), me).await.map(|_| ()))));
            results.push(("release_lock", nl(api.release_lock(k.clone(), me).await)));
            results.push(("delete", nl(api.delete("verif/marker".to_owned(), me).await.map(|_| ()))));
            results.push(("pdelete", nl(api.pdelete("#".to_owned(), me).await.map(|_| ()))));
            results.push(("import", nl(api.import("{\"data\":{\"t\":{\"x\":{\"v\":1}}}}".to_owned()).await.map(|_| ()))));
            if let Some((name, _)) = results.iter().find(|(_, ok)| !ok) {
                return Err(Failure::new("c11.follower_accepts_write", format!("follower {fi} answers {name} with NotLeader"), "it did not"));
            }
            let after = user_state(&f.server).await?;
            if before != after {
                return Err(Failure::new("c11.follower_write_had_effect", format!("{before:?}"), format!("{after:?}")));
            }
        }
        Ok(())
    }

    pub async fn stop(self) -> Result<(), Failure> {
        let mut err = None;
        for f in self.followers {
            if f.server.is_finished() {
                err = Some("a follower terminated on its own".to_owned());
            }
            if let Err(e) = f.server.stop().await {
                err = Some(format!("follower: {e}"));
            }
        }
        if let Err(e) = self.leader.stop().await {
            err = Some(format!("leader: {e}"));
        }
        match err {
            Some(e) => Err(Failure::new("c11.server_down", "leader and followers keep running and stop cleanly", e)),
            None => Ok(()),
        }
    }
}

async fn run_case(case: &Case, kfs: &KnownFindings) -> Result<CaseReport, Failure> {
    let (leader, port) = start_leader(leader_config).await?;
    let mut d = Driver {
        leader,
        port,
        followers: vec![],
        connected: BTreeSet::new(),
        tainted: BTreeSet::new(),
        cas_imported: BTreeSet::new(),
        marker: 0,
        stats: Stats::default(),
        kf_shapes: case.with_known_finding_shapes,
    };
    let mut res = Ok(());
    for op in &case.ops {
        res = d.leader_op(op, &follower_config).await;
        if res.is_err() {
            break;
        }
    }
    if res.is_ok() {
        res = d.check().await;
    }
    if res.is_ok() {
        res = d.follower_refuses_writes().await;
    }
    let mut rep = CaseReport::default();
    // listed known findings only
    for k in std::mem::take(&mut d.stats.kf) {
        let sig = json!({"obs": "c11.divergence", "finding": k});
        match kfs.matching("C11", &sig) {
            Some(f) => rep.kf.push(f.id.clone()),
            None => {
                if res.is_ok() {
                    res = Err(Failure::new("c11.divergence", "follower == leader", format!("divergence of the kind {k}")).sig(sig));
                }
            }
        }
    }
    let s = std::mem::take(&mut d.stats);
    let joined = !d.followers.is_empty();
    let stop = d.stop().await;
    // a server that could not bind a port because another process on this machine holds it is
    // an accident of the environment, not a property of the code
    let port_taken = matches!(&stop, Err(f) if f.actual.contains("in use") || f.actual.contains("AddrInUse"));
    match res {
        Err(f) if port_taken || f.signature.get("obs").and_then(|o| o.as_str()) == Some("timeout") => {
            rep.inconclusive = true;
            return Ok(rep);
        }
        Err(f) => return Err(f),
        Ok(()) => {}
    }
    if port_taken {
        rep.inconclusive = true;
        return Ok(rep);
    }
    stop?;
    if joined {
        rep.classes.push("follower_joined");
    }
    if s.rejected > 0 {
        rep.classes.push("has_rejected_request");
    }
    if s.disconnects > 0 {
        rep.classes.push("has_session_end");
    }
    if s.disconnects_with_effect > 0 {
        rep.classes.push("session_end_with_effective_registrations");
    }
    rep.excluded = vec![("session_end_with_effective_registrations_after_join", s.excluded)];
    rep.counters = vec![("checks", s.checks), ("writes_before_join", s.writes_before_join), ("writes_after_join", s.writes_after_join)];
    rep.nontrivial = joined && s.writes_before_join >= 3 && s.writes_after_join >= 3 && s.rejected > 0 && s.disconnects > 0;
    Ok(rep)
}

pub fn check_case(case: &Case, kfs: &KnownFindings) -> Result<CaseReport, Failure> {
    block_on(run_case(case, kfs))
}

pub fn lop() -> BoxedStrategy<LOp> {
    let key = || prop_oneof![8 => ops::key(), 1 => Just("x/y".to_owned())];
    // keys of write requests also take shapes the leader rejects
    let wkey = || prop_oneof![12 => key(), 1 => Just(String::new()), 1 => Just("a/?".to_owned()), 1 => Just("a/#".to_owned()), 1 => Just("?".to_owned())];
    let pat = || prop_oneof![4 => ops::pattern(), 3 => key(), 1 => ops::bad_pattern()];
    let val = || crate::jgen::value(true, false);
    prop_oneof![
        2 => (0..3u8).prop_map(LOp::Connect),
        2 => (0..3u8).prop_map(LOp::Disconnect),
        10 => (0..3u8, wkey(), val()).prop_map(|(c, k, v)| LOp::Set(c, k, v)),
        6 => (0..3u8, wkey(), val(), prop_oneof![4 => Just(Ver::Current), 1 => Just(Ver::Stale), 2 => Just(Ver::Zero)]).prop_map(|(c, k, v, ver)| LOp::CSet(c, k, v, ver)),
        4 => (0..3u8, wkey()).prop_map(|(c, k)| LOp::Delete(c, k)),
        3 => (0..3u8, pat()).prop_map(|(c, p)| LOp::PDelete(c, p)),
        2 => proptest::collection::vec((key(), val(), prop_oneof![2 => Just(None), 1 => (1..9u64).prop_map(Some)]), 1..=3).prop_map(LOp::Import),
        3 => (0..3u8, proptest::collection::vec(pat(), 0..=2)).prop_map(|(c, p)| LOp::GraveGoods(c, p)),
        3 => (0..3u8, proptest::collection::vec((key(), val()), 0..=2)).prop_map(|(c, w)| LOp::LastWill(c, w)),
        2 => Just(LOp::Check),
    ]
    .boxed()
}

pub fn case(max: usize, kf: bool) -> BoxedStrategy<Case> {
    (
        proptest::collection::vec(lop(), 0..=max / 2),
        proptest::collection::vec(lop(), 0..=max / 2),
        proptest::collection::vec(lop(), 0..=max / 3),
        any::<bool>(),
    )
        .prop_map(move |(a, b, c, second)| {
            let mut ops = vec![LOp::Connect(0), LOp::Connect(1)];
            ops.extend(a);
            ops.push(LOp::Join);
            ops.extend(b);
            if second {
                ops.push(LOp::Join);
            }
            ops.extend(c);
            Case { ops, with_known_finding_shapes: kf }
        })
        .boxed()
}

pub fn run(cfg: &RunCfg) -> i32 {
    let mut check = Check::new(cfg, "exploration");
    check.assume("cluster engine: leader and follower(s) are whole in-process servers connected over the real TCP sync port; the leader is driven through its public WbApi handle; quiescence = a marker written on the leader is visible on the follower (same ordered channel); a marker that does not arrive within 30 s drops the case");
    check.assume("the oracle is differential (follower vs leader: values, versions, registrations); patterns and keys that reach $SYS or the marker key are not generated");
    let kfs = check.kf.clone();
    let n = cfg.cases(400, 20_000);
    let max = cfg.tier.pick(40, 100);
    let (agg, v) = run_prop(cfg, "main", n, move || case(max, false), |c: &Case| check_case(c, &kfs));
    check.add_part(
        "main",
        "leader histories (connect / set / cset with current, stale, zero version / delete / pdelete / import of plain entries / registrations / session ends / rejected requests by 3 clients) with 1-2 followers joining at generated positions and comparisons at generated quiescent points and at the end; oracle: every user key has the same value and CAS version on follower and leader, the follower holds the registrations of the connected clients, every direct write to the follower (11 kinds) is answered NotLeader without effect; the trigger shapes of the listed known findings are excluded by construction (counted); non-trivial = a follower joined after >= 3 and before >= 3 more accepted writes, with a rejected request and a session end; distinct = case",
        false,
        agg,
    );
    if let Some(v) = v {
        check.violate("main", &v.case, v.failure);
    }
    if !check.has_violation() {
        let n = cfg.cases(200, 5_000);
        let (agg, v) = run_prop(cfg, "known-finding-shapes", n, move || case(max, true), |c: &Case| check_case(c, &kfs));
        check.add_part(
            "known-finding-shapes",
            "same generator including registrations made before the join, session ends whose grave goods / last wills change user keys, and imports of CAS entries; a divergence is tolerated only on exactly the keys those three listed findings explain",
            false,
            agg,
        );
        if let Some(v) = v {
            check.violate("known-finding-shapes", &v.case, v.failure);
        }
    }
    check.finish()
}
