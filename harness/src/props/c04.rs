//! C04 One wildcard relation decides queries, deletes and notifications.

use crate::evidence::{Check, KnownFindings};
use crate::interp::{base_config_cached, err_code, uuid};
use crate::model::*;
use crate::util::{CaseReport, Failure, RunCfg, block_on, run_enumerated, run_prop};
use proptest::prelude::*;
use serde::{Deserialize, Serialize};
use serde_json::json;
use worterbuch::verif::{Worterbuch, pattern_matches};
use worterbuch_common::PStateEvent;

#[derive(Clone, Debug, Serialize, Deserialize, PartialEq)]
pub struct Pair {
    pub pattern: String,
    pub key: String,
    /// patterns other clients have subscribed to before the pattern under test is used (a leading
    /// '-' = subscribed and unsubscribed again): the relation must not depend on them
    #[serde(default)]
    pub bystanders: Vec<String>,
}

const DECOY: &str = "d/e/c/o/y/!";

async fn observe(pattern: &str, key: &str, bystanders: &[String]) -> Result<(Option<(bool, bool, bool)>, Option<(bool, bool, bool)>), Failure> {
    // returns (for key, for decoy): (in pget, notified, removed by pdelete); None = all three rejected
    let me = uuid(1);
    let mut wb = Worterbuch::with_config(base_config_cached());
    // subscriptions of other clients (kept alive until the end, or ended again at once)
    let mut others = vec![];
    for (i, b) in bystanders.iter().enumerate() {
        if b.starts_with('~') {
            // comes and goes *after* the subscription under test exists (below)
            continue;
        }
        let (p, gone) = match b.strip_prefix('-') {
            Some(p) => (p, true),
            None => (b.as_str(), false),
        };
        let id = uuid(50 + i as u128);
        if let Ok(sub) = wb.psubscribe(id, 1, p.to_owned(), false, true).await {
            if gone {
                wb.unsubscribe(id, 1).await.map_err(|e| Failure::new("c04.setup", "unsubscribe accepted", err_code(&e)))?;
            } else {
                others.push(sub);
            }
        }
    }
    wb.set(key.to_owned(), json!(1), uuid(INTERNAL), false)
        .await
        .map_err(|e| Failure::new("c04.setup", "set accepted", err_code(&e)))?;
    wb.set(DECOY.to_owned(), json!(1), uuid(INTERNAL), false)
        .await
        .map_err(|e| Failure::new("c04.setup", "set accepted", err_code(&e)))?;

    let sub = wb.psubscribe(me, 1, pattern.to_owned(), false, true).await;
    for (i, b) in bystanders.iter().enumerate() {
        if let Some(p) = b.strip_prefix('~') {
            let id = uuid(80 + i as u128);
            if wb.psubscribe(id, 1, p.to_owned(), false, true).await.is_ok() {
                wb.unsubscribe(id, 1).await.map_err(|e| Failure::new("c04.setup", "unsubscribe accepted", err_code(&e)))?;
            }
        }
    }
    let got = wb.pget(pattern);
    // second set of both keys: live events
    wb.set(key.to_owned(), json!(2), uuid(INTERNAL), false)
        .await
        .map_err(|e| Failure::new("c04.setup", "set accepted", err_code(&e)))?;
    wb.set(DECOY.to_owned(), json!(2), uuid(INTERNAL), false)
        .await
        .map_err(|e| Failure::new("c04.setup", "set accepted", err_code(&e)))?;
    let mut notified_k = false;
    let mut notified_d = false;
    let sub_ok = match sub {
        Ok((mut rx, _)) => {
            while let Ok(ev) = rx.try_recv() {
                match ev {
                    PStateEvent::KeyValuePairs(kvps) => {
                        for kvp in kvps {
                            if kvp.key == key {
                                notified_k = true;
                            } else if kvp.key == DECOY {
                                notified_d = true;
                            } else {
                                return Err(Failure::new("c04.foreign_event", "events for the two stored keys only", kvp.key));
                            }
                        }
                    }
                    PStateEvent::Deleted(k) => return Err(Failure::new("c04.foreign_event", "no delete event", k)),
                }
            }
            true
        }
        Err(_) => false,
    };
    let del = wb.pdelete(pattern.to_owned(), uuid(INTERNAL)).await;
    let k_left = wb.get(&key.to_owned()).is_ok();
    let d_left = wb.get(&DECOY.to_owned()).is_ok();
    drop(others);

    match (sub_ok, &got, &del) {
        (false, Err(_), Err(_)) => {
            if !k_left || !d_left {
                return Err(Failure::new("c04.rejected_but_deleted", "a rejected pdelete removes nothing", (k_left, d_left)));
            }
            Ok((None, None))
        }
        (true, Ok(g), Ok(d)) => {
            let in_get_k = g.iter().any(|kv| kv.key == key);
            let in_get_d = g.iter().any(|kv| kv.key == DECOY);
            let in_del_k = d.iter().any(|kv| kv.key == key);
            let in_del_d = d.iter().any(|kv| kv.key == DECOY);
            if in_del_k == k_left || in_del_d == d_left {
                return Err(Failure::new(
                    "c04.pdelete_answer_vs_state",
                    "pdelete's answer lists exactly the keys it removed",
                    format!("answer k={in_del_k} decoy={in_del_d}; still stored k={k_left} decoy={d_left}"),
                ));
            }
            if g.len() != in_get_k as usize + in_get_d as usize || d.len() != in_del_k as usize + in_del_d as usize {
                return Err(Failure::new("c04.foreign_key", "only the two stored keys", format!("pget {g:?} pdelete {d:?}")));
            }
            Ok((Some((in_get_k, notified_k, in_del_k)), Some((in_get_d, notified_d, in_del_d))))
        }
        _ => Err(Failure::new(
            "c04.verdicts_differ",
            "psubscribe, pget and pdelete agree on whether the pattern is acceptable",
            format!("psubscribe ok={sub_ok} pget ok={} pdelete ok={}", got.is_ok(), del.is_ok()),
        )
        .sig(json!({"obs":"c04.verdicts_differ"}))),
    }
}

fn check_pair(pair: &Pair, kfs: &KnownFindings) -> Result<CaseReport, Failure> {
    let pat = parse_pattern(&pair.pattern);
    let key = split(&pair.key);
    let decoy = split(DECOY);
    let valid = pattern_valid(&pat);
    let (rk, rd) = block_on(observe(&pair.pattern, &pair.key, &pair.bystanders))?;
    let mut rep = CaseReport {
        nontrivial: has_wildcard(&pat),
        ..Default::default()
    };
    if !valid {
        rep.classes.push("invalid_pattern");
        if rk.is_some() {
            return Err(Failure::new("c04.invalid_accepted", "a pattern with a `#` that is not last is rejected by pget, pdelete and psubscribe", "accepted")
                .sig(json!({"obs":"c04.invalid_accepted"})));
        }
        return Ok(rep);
    }
    let Some((g, n, d)) = rk else {
        return Err(Failure::new("c04.valid_rejected", "a valid pattern is accepted", "rejected by all three entry points"));
    };
    let (gd, nd, dd) = rd.expect("both present");
    for (what, (g, n, d), k) in [("key", (g, n, d), &key), ("decoy", (gd, nd, dd), &decoy)] {
        let doc = matches_doc(&pat, k);
        if g == doc && n == doc && d == doc {
            continue;
        }
        let shape = if is_prefix_hash_pair(&pat, k) && g && d && !n {
            "prefix/# vs key == prefix: pget and pdelete match, the subscriber is not notified"
        } else {
            "other"
        };
        let f = Failure::new(
            "c04.relation",
            format!("{what}: pget == pdelete == notified == documented relation ({doc})"),
            format!("pget {g} notified {n} pdelete {d}"),
        )
        .sig(json!({"obs":"c04.relation","shape": shape}));
        match kfs.matching("C04", &f.signature) {
            Some(k) => rep.kf.push(k.id.clone()),
            None => return Err(f),
        }
    }
    if matches_doc(&pat, &key) {
        rep.classes.push("matching_pair");
    }
    // the authorization matcher must implement the same relation for literal keys
    let auth = pattern_matches(&pair.pattern, &pair.key);
    if auth != matches_doc(&pat, &key) {
        return Err(Failure::new("c04.auth_relation", format!("auth::pattern_matches == documented relation ({})", matches_doc(&pat, &key)), auth));
    }
    Ok(rep)
}

fn all_strings(alphabet: &[&str], min: usize, max: usize) -> Vec<String> {
    let mut out = vec![];
    let mut frontier: Vec<Vec<&str>> = vec![vec![]];
    for depth in 1..=max {
        let mut next = vec![];
        for f in &frontier {
            for a in alphabet {
                let mut n = f.clone();
                n.push(*a);
                next.push(n);
            }
        }
        if depth >= min {
            out.extend(next.iter().map(|v| v.join("/")));
        }
        frontier = next;
    }
    out
}

fn rand_seg() -> BoxedStrategy<String> {
    prop_oneof![
        6 => Just("a".to_owned()),
        4 => Just("b".to_owned()),
        2 => Just("".to_owned()),
        2 => Just("ä".to_owned()),
        2 => Just("日本".to_owned()),
        1 => Just("a?b".to_owned()),
        1 => Just("#x".to_owned()),
        1 => Just("??".to_owned()),
        1 => Just(" ".to_owned()),
        1 => Just("$SYS".to_owned()),
        1 => Just("x".repeat(300)),
        2 => "[a-c]{1,3}",
    ]
    .boxed()
}

/// a pattern derived from a key: segments replaced by `?` or a foreign segment, truncated + `#`,
/// one level more / less, `#` inserted somewhere
fn derive(key: &[String], muts: &[u8], cut: usize, tail: u8, other: &str) -> String {
    let mut pat: Vec<String> = key
        .iter()
        .zip(muts.iter())
        .map(|(s, m)| match m {
            0..=3 => "?".to_owned(),
            4 => other.to_owned(),
            _ => s.clone(),
        })
        .collect();
    match tail {
        0..=3 => {
            pat.truncate(cut.min(pat.len()));
            pat.push("#".to_owned());
        }
        4 => {
            pat.push("?".to_owned());
        }
        5 => {
            if pat.len() > 1 {
                pat.pop();
            }
        }
        6 => {
            let at = cut.min(pat.len());
            pat.insert(at, "#".to_owned());
        }
        _ => {}
    }
    let pattern = pat.join("/");
    if pattern.is_empty() { "?".to_owned() } else { pattern }
}

fn rand_pair() -> BoxedStrategy<Pair> {
    let shape = || (proptest::collection::vec(0..12u8, 8), 0..9usize, 0..10u8, rand_seg());
    (proptest::collection::vec(rand_seg(), 1..=8), shape(), proptest::collection::vec((shape(), 0..3u8), 0..=2))
        .prop_map(|(mut key, (muts, cut, tail, other), by)| {
            if key.len() == 1 && key[0].is_empty() {
                // the empty string is not a key
                key[0] = "a".to_owned();
            }
            let pattern = derive(&key, &muts, cut, tail, &other);
            let bystanders = by
                .into_iter()
                .map(|((muts, cut, tail, other), gone)| {
                    let p = derive(&key, &muts, cut, tail, &other);
                    match gone {
                        0 => p,
                        1 => format!("-{p}"),
                        _ => format!("~{p}"),
                    }
                })
                .collect();
            Pair { pattern, key: key.join("/"), bystanders }
        })
        .boxed()
}

pub fn run_pair(p: &Pair, kfs: &KnownFindings) -> Result<CaseReport, Failure> {
    check_pair(p, kfs)
}

pub fn run(cfg: &RunCfg) -> i32 {
    let mut check = Check::new(cfg, "exploration");
    check.assume("per pair a fresh core holding exactly the key and one decoy key; the notification side is observed with a live-only psubscription and a second set of the key");
    let kfs = check.kf.clone();

    let depth = cfg.tier.pick(4, 5);
    // the pattern consisting of one empty segment is the empty string: it can only ever match the
    // empty key, which cannot be stored, and pdelete refuses it as "empty key" - not part of the domain
    let patterns: Vec<String> = all_strings(&["a", "b", "", "?", "#"], 1, depth).into_iter().filter(|p| !p.is_empty()).collect();
    // the key consisting of one empty segment is the empty string, which the server refuses as a key
    let keys: Vec<String> = all_strings(&["a", "b", ""], 1, 5).into_iter().filter(|k| !k.is_empty()).collect();
    let mut pairs = Vec::with_capacity(patterns.len() * keys.len());
    for p in &patterns {
        for k in &keys {
            pairs.push(Pair { pattern: p.clone(), key: k.clone(), bystanders: vec![] });
        }
    }
    let (agg, v) = run_enumerated(cfg, &pairs, |p| check_pair(p, &kfs));
    check.add_part(
        "exhaustive",
        &format!(
            "all {} patterns over {{a,b,'',?,#}} of depth 1..={depth} x all {} keys over {{a,b,''}} of depth 1..=5; oracle: pget(p) contains k <=> pdelete(p) removes k <=> a live subscriber of p is notified of a set of k <=> documented relation, the same for a decoy key, a `#` that is not last rejected by all three, auth::pattern_matches equal to the relation; non-trivial = pattern contains a wildcard; distinct = pair",
            patterns.len(),
            keys.len()
        ),
        true,
        agg,
    );
    if let Some(v) = v {
        check.violate("exhaustive", &v.case, v.failure);
    }
    if !check.has_violation() {
        // the same relation while another client's subscription coexists in the subscriber tree
        let small: Vec<String> = all_strings(&["a", "?", "#"], 1, 3).into_iter().filter(|p| pattern_valid(&parse_pattern(p))).collect();
        let small_keys: Vec<String> = all_strings(&["a", "b"], 1, 3);
        let mut pairs = vec![];
        for p in &small {
            for b in &small {
                for k in &small_keys {
                    pairs.push(Pair { pattern: p.clone(), key: k.clone(), bystanders: vec![b.clone()] });
                    pairs.push(Pair { pattern: p.clone(), key: k.clone(), bystanders: vec![format!("-{b}")] });
                    pairs.push(Pair { pattern: p.clone(), key: k.clone(), bystanders: vec![format!("~{b}")] });
                }
            }
        }
        let n_pairs = pairs.len();
        let (agg, v) = run_enumerated(cfg, &pairs, |p| check_pair(p, &kfs));
        check.add_part(
            "coexisting",
            &format!("{n_pairs} cases: all valid patterns over {{a,?,#}} of depth 1..=3 x every such pattern as the subscription of another client (alive; made and ended before the pattern under test is subscribed; made and ended after it) x all keys over {{a,b}} of depth 1..=3; same oracle; distinct = case"),
            true,
            agg,
        );
        if let Some(v) = v {
            check.violate("coexisting", &v.case, v.failure);
        }
    }
    if !check.has_violation() {
        let n = cfg.cases(100_000, 2_000_000);
        let (agg, v) = run_prop(cfg, "random", n, rand_pair, |p: &Pair| check_pair(p, &kfs));
        check.add_part(
            "random",
            "random keys of depth 1..=8 over unicode/long/empty/$SYS segments and patterns derived from the key (segments replaced by ?, truncated + #, # inserted at a random position, one level more/less), with 0-2 further patterns derived the same way subscribed by other clients beforehand (alive or ended again); same oracle",
            false,
            agg,
        );
        if let Some(v) = v {
            check.violate("random", &v.case, v.failure);
        }
    }
    check.finish()
}
