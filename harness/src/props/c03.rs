//! C03 A subscription delivers current state, then every matching change once, in order.

use super::hist::*;
use crate::evidence::Check;
use crate::interp::{HistStats, Opts};
use crate::ops::*;
use crate::util::RunCfg;

fn classify(s: &HistStats) -> (bool, Vec<&'static str>) {
    let mut classes = vec![];
    if s.snapshots > 0 {
        classes.push("has_subscription");
    }
    if s.max_events_one_sub >= 3 {
        classes.push("request_with_3_or_more_events_for_one_subscription");
    }
    if s.sub_event_kinds.len() >= 2 {
        classes.push("value_and_delete_events");
    }
    if s.unique_suppressed > 0 {
        classes.push("event_suppressed_by_unique");
    }
    if s.disconnects > 0 {
        classes.push("has_disconnect");
    }
    (s.sub_events >= 3 && s.sub_event_kinds.len() >= 2 && s.unique_suppressed > 0, classes)
}

pub fn opts() -> Opts {
    Opts {
        readback: false,
        events: true,
        ls: false,
        locks: false,
        sys: false,
        fold: true,
        observer: true,
        readback_every: 1,
    }
}

pub fn weights() -> Weights {
    Weights {
        connect: 2,
        disconnect: 2,
        set: 22,
        iset: 1,
        cset: 10,
        delete: 10,
        pdelete: 8,
        import: 5,
        publish: 4,
        spub: 3,
        reads: 1,
        subscribe: 8,
        psubscribe: 12,
        unsubscribe: 4,
        subscribe_ls: 0,
        unsubscribe_ls: 0,
        lock: 0,
        acquire: 0,
        release: 0,
        registrations: 1,
        bad_patterns: 1,
        sys_targets: 0,
        reset: 10,
    }
}

pub fn run(cfg: &RunCfg) -> i32 {
    let mut check = Check::new(cfg, "exploration");
    check.assume("direct core engine: every subscription's receiver is drained after every request, so the order of events across requests is fixed by construction; within one request the events of one subscription are compared per key as sequences");
    check.assume("for an import that changes only the kind/version of an entry a unique subscription may or may not be notified (the statement is silent)");
    let n = cfg.cases(60_000, 1_500_000);
    let max_ops = cfg.tier.pick(40, 120);
    random_part(
        &mut check,
        cfg,
        "random",
        "seeded random histories of writes (set/cset/delete/pdelete/import/publish/spub) interleaved with subscribe/psubscribe in all four unique x live-only combinations, unsubscribe and disconnect by up to 3 clients with overlapping subscriptions; oracle: snapshot on subscribe, exactly the model's events per request and subscription, silence after unsubscribe/disconnect, snapshot folded with the events == pget(pattern) after every request; non-trivial = >= 3 checked events of both kinds (value, deleted) and >= 1 event suppressed by unique; distinct = history",
        weights(),
        3,
        max_ops,
        n,
        opts(),
        classify,
    );
    if !check.has_violation() {
        check.assume("wire part: an event counts as not delivered when the predicted number has not arrived although at least 100 later requests of the same session were answered over at least 10 s; a harness-side answer timeout is inconclusive; the server's own $SYS events are not modelled there");
        super::c03w::part(&mut check, cfg);
    }
    check.finish()
}
