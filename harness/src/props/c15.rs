//! C15 With authorization on, a client reaches only keys its token grants.

use crate::evidence::{Check, KnownFindings};
use crate::interp::uuid;
use crate::model::*;
use crate::util::{CaseReport, Failure, RunCfg, block_on, run_enumerated, run_prop};
use crate::wire::{Recv, Session, WireServer, kind_and_tid};
use proptest::prelude::*;
use serde::{Deserialize, Serialize};
use serde_json::{Value, json};
use std::time::Duration;
use worterbuch::verif::pattern_matches;
use worterbuch_common::WbApi;

const SECRET: &str = "verif-secret";

// ------------------------------------------------------------------------------------------
// part 1: containment of a requested pattern in a granted one, exhaustive

#[derive(Clone, Debug, Serialize, Deserialize)]
pub struct Containment {
    pub grant: String,
    pub request: String,
}

fn strings(alphabet: &[&str], max: usize) -> Vec<String> {
    let mut out = vec![];
    let mut frontier: Vec<Vec<&str>> = vec![vec![]];
    for _ in 0..max {
        let mut next = vec![];
        for f in &frontier {
            for a in alphabet {
                let mut n = f.clone();
                n.push(*a);
                next.push(n);
            }
        }
        out.extend(next.iter().map(|v| v.join("/")));
        frontier = next;
    }
    out
}

fn containment_keys() -> &'static Vec<Path> {
    static KEYS: std::sync::OnceLock<Vec<Path>> = std::sync::OnceLock::new();
    KEYS.get_or_init(|| strings(&["a", "ab"], 5).iter().map(|k| split(k)).collect())
}

pub fn check_containment(c: &Containment) -> Result<CaseReport, Failure> {
    let mut rep = CaseReport::default();
    let g = parse_pattern(&c.grant);
    let r = parse_pattern(&c.request);
    rep.nontrivial = has_wildcard(&g) || has_wildcard(&r);
    if !pattern_matches(&c.grant, &c.request) {
        return Ok(rep);
    }
    rep.classes.push("request_accepted_by_grant");
    if !pattern_valid(&r) || !pattern_valid(&g) {
        // a request with a misplaced # is refused by the server before it selects anything (C04)
        rep.classes.push("invalid_pattern");
        return Ok(rep);
    }
    for k in containment_keys() {
        if matches_prefix_too(&r, k) && !matches_prefix_too(&g, k) {
            return Err(Failure::new(
                "c15.containment",
                format!("every key selected by the request {:?} is selected by the grant {:?} that accepts it", c.request, c.grant),
                format!("key {} is selected by the request but not by the grant", join(k)),
            ));
        }
    }
    Ok(rep)
}

// ------------------------------------------------------------------------------------------
// part 2: sessions

#[derive(Clone, Debug, PartialEq, Serialize, Deserialize)]
pub enum Token {
    Valid,
    Expired,
    WrongSecret,
    Garbage,
    /// no authorization request at all
    None,
}

#[derive(Clone, Debug, PartialEq, Serialize, Deserialize, Default)]
pub struct Grants {
    pub read: Option<Vec<String>>,
    pub write: Option<Vec<String>>,
    pub delete: Option<Vec<String>>,
}

#[derive(Clone, Debug, PartialEq, Serialize, Deserialize)]
pub enum Req {
    Get(String),
    CGet(String),
    PGet(String),
    Set(String),
    CSet(String),
    Publish(String),
    Delete(String),
    PDelete(String),
    Ls(Option<String>),
    PLs(Option<String>),
    Subscribe(String),
    PSubscribe(String),
    SubscribeLs(Option<String>),
    SPubInit(String),
    Lock(String),
    AcquireLock(String),
    ReleaseLock(String),
}

#[derive(Clone, Debug, PartialEq, Serialize, Deserialize)]
pub struct SessionCase {
    pub token: Token,
    pub grants: Grants,
    pub reqs: Vec<Req>,
}

fn universe() -> &'static Vec<Path> {
    static U: std::sync::OnceLock<Vec<Path>> = std::sync::OnceLock::new();
    U.get_or_init(|| {
        let mut v: Vec<Path> = strings(&["a", "ab", "c"], 4).iter().map(|k| split(k)).collect();
        for k in ["$SYS", "$SYS/version", "$SYS/clients", "$SYS/store/mode", "$SYS/clients/x/graveGoods"] {
            v.push(split(k));
        }
        v
    })
}

fn mint(token: &Token, grants: &Grants) -> Option<String> {
    use jsonwebtoken::{Algorithm, EncodingKey, Header, encode};
    let now = std::time::SystemTime::now().duration_since(std::time::UNIX_EPOCH).map(|d| d.as_secs()).unwrap_or(0);
    let (exp, secret) = match token {
        Token::Valid => (now + 3600, SECRET),
        Token::Expired => (now.saturating_sub(3600), SECRET),
        Token::WrongSecret => (now + 3600, "some-other-secret"),
        Token::Garbage => return Some("not.a.token".to_owned()),
        Token::None => return None,
    };
    let claims = json!({
        "sub": "verif",
        "name": "verif",
        "exp": exp,
        "worterbuchPrivileges": {"read": grants.read, "write": grants.write, "delete": grants.delete},
    });
    encode(&Header::new(Algorithm::HS256), &claims, &EncodingKey::from_secret(secret.as_bytes())).ok()
}

/// (privilege, pattern whose keys the request can return / change / remove, request JSON)
fn describe(r: &Req, tid: u64) -> (&'static str, Option<String>, Value) {
    let lsp = |p: &Option<String>| Some(p.as_ref().map(|p| format!("{p}/?")).unwrap_or("?".to_owned()));
    match r {
        Req::Get(k) => ("read", Some(k.clone()), json!({"get": {"transactionId": tid, "key": k}})),
        Req::CGet(k) => ("read", Some(k.clone()), json!({"cGet": {"transactionId": tid, "key": k}})),
        Req::PGet(p) => ("read", Some(p.clone()), json!({"pGet": {"transactionId": tid, "requestPattern": p}})),
        Req::Set(k) => ("write", Some(k.clone()), json!({"set": {"transactionId": tid, "key": k, "value": "by-client"}})),
        Req::CSet(k) => ("write", Some(k.clone()), json!({"cSet": {"transactionId": tid, "key": k, "value": "by-client", "version": 0}})),
        Req::Publish(k) => ("write", Some(k.clone()), json!({"publish": {"transactionId": tid, "key": k, "value": "by-client"}})),
        Req::Delete(k) => ("delete", Some(k.clone()), json!({"delete": {"transactionId": tid, "key": k}})),
        Req::PDelete(p) => ("delete", Some(p.clone()), json!({"pDelete": {"transactionId": tid, "requestPattern": p}})),
        Req::Ls(p) => ("read", lsp(p), json!({"ls": {"transactionId": tid, "parent": p}})),
        Req::PLs(p) => ("read", lsp(p), json!({"pLs": {"transactionId": tid, "parentPattern": p}})),
        Req::Subscribe(k) => ("read", Some(k.clone()), json!({"subscribe": {"transactionId": tid, "key": k, "unique": false}})),
        Req::PSubscribe(p) => ("read", Some(p.clone()), json!({"pSubscribe": {"transactionId": tid, "requestPattern": p, "unique": false}})),
        Req::SubscribeLs(p) => ("read", lsp(p), json!({"subscribeLs": {"transactionId": tid, "parent": p}})),
        Req::SPubInit(k) => ("write", Some(k.clone()), json!({"sPubInit": {"transactionId": tid, "key": k}})),
        Req::Lock(k) => ("write", Some(k.clone()), json!({"lock": {"transactionId": tid, "key": k}})),
        Req::AcquireLock(k) => ("write", Some(k.clone()), json!({"acquireLock": {"transactionId": tid, "key": k}})),
        Req::ReleaseLock(k) => ("write", Some(k.clone()), json!({"releaseLock": {"transactionId": tid, "key": k}})),
    }
}

/// is every key of the universe that the request pattern selects covered by a grant
fn covered(grants: &Option<Vec<String>>, request: &str) -> bool {
    let r = parse_pattern(request);
    let gs: Vec<Vec<PSeg>> = grants.as_ref().map(|g| g.iter().map(|p| parse_pattern(p)).collect()).unwrap_or_default();
    universe().iter().filter(|k| matches_prefix_too(&r, k)).all(|k| gs.iter().any(|g| pattern_valid(g) && matches_prefix_too(g, k)))
}

fn selects_something(request: &str) -> bool {
    let r = parse_pattern(request);
    universe().iter().any(|k| matches_prefix_too(&r, k))
}

async fn user_state(ws: &WireServer) -> Result<Vec<(String, Value)>, Failure> {
    let all = ws.server.api.pget("#".to_owned()).await.map_err(|e| Failure::new("c15.observer", "pget", e.to_string()))?;
    let mut v: Vec<(String, Value)> = all.into_iter().filter(|kv| !kv.key.starts_with("$SYS")).map(|kv| (kv.key, kv.value)).collect();
    v.sort_by(|a, b| a.0.cmp(&b.0));
    Ok(v)
}

async fn run_session_case(case: &SessionCase) -> Result<CaseReport, Failure> {
    let ws = WireServer::start("C15", |c| c.auth_token_key = Some(SECRET.to_owned())).await.map_err(|e| Failure::new("c15.server", "server starts", e))?;
    let res = drive(case, &ws).await;
    let crashed = ws.server.is_finished();
    let stop = ws.stop().await;
    if crashed || stop.is_err() {
        return Err(Failure::new("c15.server_down", "the server keeps running", format!("{stop:?}")));
    }
    match res {
        Err(f) if f.signature.get("obs").and_then(|o| o.as_str()) == Some("timeout") => Ok(CaseReport { inconclusive: true, ..Default::default() }),
        other => other,
    }
}

async fn drive(case: &SessionCase, ws: &WireServer) -> Result<CaseReport, Failure> {
    let internal = uuid(INTERNAL);
    for k in ["a", "a/ab", "a/ab/c", "ab", "ab/a", "c/c/c", "a/a/a/a"] {
        ws.server.api.set(k.to_owned(), json!(format!("planted {k}")), internal).await.map_err(|e| Failure::new("c15.setup", "set", e.to_string()))?;
    }
    let mut rep = CaseReport::default();
    let mut s = Session::connect(&ws.sock).await.map_err(|e| Failure::new("c15.connect", "welcome", e))?;
    if s.welcome["welcome"]["info"]["authorizationRequired"] != json!(true) {
        return Err(Failure::new("c15.welcome", "authorizationRequired: true", s.welcome.to_string()));
    }
    let mut authorized = false;
    if let Some(tok) = mint(&case.token, &case.grants) {
        s.send_json(&json!({"authorizationRequest": {"authToken": tok}})).await;
        match s.recv(Duration::from_secs(20)).await {
            Recv::Msg(v) => {
                let k = kind_and_tid(&v).map(|x| x.0).unwrap_or_default();
                if k == "authorized" {
                    authorized = true;
                } else if k != "err" {
                    return Err(Failure::new("c15.auth_answer", "authorized or err", v.to_string()));
                }
            }
            Recv::Closed => {}
            Recv::Timeout => return Err(Failure::new("c15.timeout", "answer", "none").sig(json!({"obs": "timeout"}))),
            Recv::Garbage(l) => return Err(Failure::new("c15.garbage", "json", l)),
        }
        if authorized != (case.token == Token::Valid) {
            return Err(Failure::new("c15.token_verdict", format!("token {:?} accepted: {}", case.token, case.token == Token::Valid), format!("accepted: {authorized}")));
        }
    }
    let (mut served, mut refused) = (std::collections::BTreeSet::new(), std::collections::BTreeSet::new());
    let mut tid = 10u64;
    for r in &case.reqs {
        tid += 1;
        let (privilege, pattern, msg) = describe(r, tid);
        let before = user_state(ws).await?;
        if !s.send_json(&msg).await {
            // the session was ended by the server earlier
            if authorized {
                return Err(Failure::new("c15.session_closed", "an authorized session stays open", "write failed"));
            }
            break;
        }
        // the terminal answer to this request (events of earlier subscriptions are skipped)
        let mut answer: Option<Value> = None;
        loop {
            match s.recv(Duration::from_secs(20)).await {
                Recv::Msg(v) => {
                    if let Some((k, t)) = kind_and_tid(&v)
                        && t == tid
                        && !(matches!(r, Req::Subscribe(_) | Req::PSubscribe(_) | Req::SubscribeLs(_)) && (k == "state" || k == "pState" || k == "lsState"))
                    {
                        answer = Some(v);
                        break;
                    }
                }
                Recv::Closed => break,
                Recv::Timeout => return Err(Failure::new("c15.timeout", "answer", "none").sig(json!({"obs": "timeout"}))),
                Recv::Garbage(l) => return Err(Failure::new("c15.garbage", "json", l)),
            }
        }
        let after = user_state(ws).await?;
        let grants = match privilege {
            "read" => &case.grants.read,
            "write" => &case.grants.write,
            _ => &case.grants.delete,
        };
        let pat = pattern.clone().unwrap_or_default();
        let is_covered = authorized && covered(grants, &pat);
        let kind = answer.as_ref().and_then(kind_and_tid).map(|x| x.0);
        let was_served = matches!(kind.as_deref(), Some(k) if k != "err");
        if !authorized {
            // nothing is served before a valid token was presented
            if was_served {
                return Err(Failure::new("c15.served_without_authorization", "no request is served before a valid token was presented", format!("{msg} -> {}", answer.map(|a| a.to_string()).unwrap_or_default())));
            }
            if before != after {
                return Err(Failure::new("c15.effect_without_authorization", "store unchanged", format!("{msg} changed the store")));
            }
            if answer.is_none() {
                break;
            }
            continue;
        }
        if was_served && !is_covered && selects_something(&pat) {
            return Err(Failure::new(
                "c15.served_outside_grant",
                format!("{privilege} request {msg} is refused: grants {:?} do not cover every key it can reach", grants),
                answer.map(|a| a.to_string()).unwrap_or_default(),
            )
            .sig(json!({"obs": "c15.served_outside_grant", "privilege": privilege})));
        }
        if !was_served {
            let code = answer.as_ref().and_then(|a| a["err"]["errorCode"].as_u64());
            if code == Some(14) {
                refused.insert(privilege);
                if before != after {
                    return Err(Failure::new("c15.refused_request_had_effect", "a refused request changes nothing", format!("{msg}: {before:?} -> {after:?}")));
                }
            } else if answer.is_none() {
                return Err(Failure::new("c15.session_closed", "an authorized session stays open and every request is answered", format!("{msg}: session closed")));
            } else if !is_covered && selects_something(&pat) && code != Some(14) {
                // outside the grant: the reason given must be the authorization error
                return Err(Failure::new("c15.wrong_refusal", "err 14 (unauthorized) for a request outside the grant", answer.map(|a| a.to_string()).unwrap_or_default()));
            }
        } else {
            served.insert(privilege);
        }
    }
    if !served.is_empty() {
        rep.classes.push("has_served_request");
    }
    if !refused.is_empty() {
        rep.classes.push("has_refused_request");
    }
    rep.classes.push(match case.token {
        Token::Valid => "token_valid",
        Token::Expired => "token_expired",
        Token::WrongSecret => "token_wrong_secret",
        Token::Garbage => "token_garbage",
        Token::None => "token_none",
    });
    let both: std::collections::BTreeSet<_> = served.union(&refused).collect();
    rep.nontrivial = !served.is_empty() && !refused.is_empty() && both.len() >= 2;
    Ok(rep)
}

pub fn check_session(case: &SessionCase, _kfs: &KnownFindings) -> Result<CaseReport, Failure> {
    block_on(run_session_case(case))
}

fn pat() -> BoxedStrategy<String> {
    (proptest::collection::vec(prop_oneof![3 => Just("a"), 3 => Just("ab"), 1 => Just("c"), 2 => Just("?")], 0..=3), 0..3u8)
        .prop_map(|(mut v, t)| {
            if t == 0 || v.is_empty() {
                v.push("#");
            }
            v.join("/")
        })
        .boxed()
}

fn lit() -> BoxedStrategy<String> {
    prop_oneof![
        10 => proptest::collection::vec(prop_oneof![3 => Just("a"), 3 => Just("ab"), 1 => Just("c")], 1..=3).prop_map(|v| v.join("/")),
        1 => Just("$SYS/version".to_owned()),
        1 => Just("$SYS/clients".to_owned()),
    ]
    .boxed()
}

fn grants() -> BoxedStrategy<Grants> {
    let list = || proptest::option::weighted(0.8, proptest::collection::vec(prop_oneof![3 => pat(), 2 => lit(), 1 => Just("#".to_owned())], 0..=3));
    (list(), list(), list()).prop_map(|(read, write, delete)| Grants { read, write, delete }).boxed()
}

fn req() -> BoxedStrategy<Req> {
    prop_oneof![
        4 => lit().prop_map(Req::Get),
        2 => lit().prop_map(Req::CGet),
        4 => pat().prop_map(Req::PGet),
        4 => lit().prop_map(Req::Set),
        2 => lit().prop_map(Req::CSet),
        2 => lit().prop_map(Req::Publish),
        3 => lit().prop_map(Req::Delete),
        3 => pat().prop_map(Req::PDelete),
        2 => proptest::option::weighted(0.8, lit()).prop_map(Req::Ls),
        1 => proptest::option::weighted(0.8, lit()).prop_map(Req::PLs),
        2 => lit().prop_map(Req::Subscribe),
        2 => pat().prop_map(Req::PSubscribe),
        1 => proptest::option::weighted(0.8, lit()).prop_map(Req::SubscribeLs),
        1 => lit().prop_map(Req::SPubInit),
        1 => lit().prop_map(Req::Lock),
        1 => lit().prop_map(Req::AcquireLock),
        1 => lit().prop_map(Req::ReleaseLock),
    ]
    .boxed()
}

fn session_case(max: usize) -> BoxedStrategy<SessionCase> {
    (
        prop_oneof![10 => Just(Token::Valid), 1 => Just(Token::Expired), 1 => Just(Token::WrongSecret), 1 => Just(Token::Garbage), 1 => Just(Token::None)],
        grants(),
        proptest::collection::vec(req(), 1..=max),
    )
        .prop_map(|(token, grants, reqs)| SessionCase { token, grants, reqs })
        .boxed()
}

pub fn run(cfg: &RunCfg) -> i32 {
    let mut check = Check::new(cfg, "exploration");
    check.assume("'covered' is decided over a finite key universe (all keys over {a,ab,c} (ab is a string extension of a: segment boundaries matter) up to depth 4 plus a few $SYS keys): a request is outside the grant if it selects a universe key that no granted pattern selects; both sides use the most permissive matching relation (K/# also selects K), so known finding D3 cannot raise an alarm here");
    check.assume("only 'served => covered' and 'refused => err 14 and no effect' are asserted; refusing a covered request is not a violation");
    let kfs = check.kf.clone();
    let depth = cfg.tier.pick(4, 4);
    let pats = strings(&["a", "ab", "?", "#"], depth);
    let mut pairs = Vec::with_capacity(pats.len() * pats.len());
    for g in &pats {
        for r in &pats {
            pairs.push(Containment { grant: g.clone(), request: r.clone() });
        }
    }
    let npairs = pairs.len();
    let (agg, v) = run_enumerated(cfg, &pairs, check_containment);
    check.add_part(
        "containment",
        &format!("all {npairs} (grant, request) pairs of patterns over {{a,ab,?,#}} up to depth {depth}: if the authorization matcher accepts the request for the grant, every key over {{a,ab}} up to depth 5 selected by the request is selected by the grant; non-trivial = a pattern contains a wildcard; distinct = pair"),
        true,
        agg,
    );
    if let Some(v) = v {
        check.violate("containment", &v.case, v.failure);
    }
    if !check.has_violation() {
        let n = cfg.cases(3_000, 150_000);
        let max = cfg.tier.pick(15, 40);
        let (agg, v) = run_prop(cfg, "sessions", n, move || session_case(max), |c: &SessionCase| check_session(c, &kfs));
        check.add_part(
            "sessions",
            "server with an HS256 token key; tokens minted by the harness (valid / expired / wrong secret / garbage / none) with generated read/write/delete grant lists; 1..=15 requests over 17 request kinds mixing covered and uncovered keys and patterns; an unrestricted observer reads the store before and after every request; oracle: nothing served or changed before a valid token, served => covered for the right privilege, refused => err 14 and no effect, session stays open; non-trivial = served and refused requests of >= 2 privileges; distinct = case",
            false,
            agg,
        );
        if let Some(v) = v {
            check.violate("sessions", &v.case, v.failure);
        }
    }
    check.finish()
}
