//! Shared driver for the history based checks on the direct core engine.

use crate::evidence::{Check, KnownFindings};
use crate::interp::{HistStats, Opts, run_history};
use crate::ops::{History, Weights, history};
use crate::util::{CaseReport, Failure, RunCfg, block_on, run_enumerated, run_prop};

pub type Classifier = fn(&HistStats) -> (bool, Vec<&'static str>);

pub fn report(stats: &HistStats, classify: Classifier) -> CaseReport {
    let (nontrivial, classes) = classify(stats);
    let mut counters = vec![
        ("steps", stats.steps),
        ("accepted_writes", stats.accepted_writes),
        ("rejected_mutations", stats.rejected_mutations),
        ("events_checked", stats.events_checked),
        ("skipped_ops", stats.skipped_ops),
    ];
    if stats.abandoned {
        counters.push(("abandoned_cases", 1));
    }
    CaseReport {
        nontrivial: nontrivial && !stats.abandoned,
        classes,
        counters,
        kf: stats.kf.clone(),
        excluded: stats.excluded.iter().map(|(k, v)| (*k, *v)).collect(),
        inconclusive: false,
    }
}

pub fn run_one(h: &History, opts: &Opts, kfs: &KnownFindings, prop: &str) -> Result<HistStats, Failure> {
    block_on(run_history(h, opts, kfs, prop))
}

#[allow(clippy::too_many_arguments)]
pub fn random_part(
    check: &mut Check,
    cfg: &RunCfg,
    part: &str,
    rule: &str,
    weights: Weights,
    nclients: u8,
    max_ops: usize,
    cases: u64,
    opts: Opts,
    classify: Classifier,
) {
    if check.has_violation() {
        return;
    }
    let kfs = check.kf.clone();
    let prop = cfg.prop.clone();
    let (agg, v) = run_prop(
        cfg,
        part,
        cases,
        || history(weights.clone(), nclients, max_ops),
        |h: &History| {
            let stats = run_one(h, &opts, &kfs, &prop)?;
            Ok(report(&stats, classify))
        },
    );
    check.add_part(part, rule, false, agg);
    if let Some(v) = v {
        check.violate(part, &v.case, v.failure);
    }
}

pub fn enumerated_part(
    check: &mut Check,
    cfg: &RunCfg,
    part: &str,
    rule: &str,
    cases: Vec<History>,
    opts: Opts,
    classify: Classifier,
) {
    if check.has_violation() {
        return;
    }
    let kfs = check.kf.clone();
    let prop = cfg.prop.clone();
    let (agg, v) = run_enumerated(cfg, &cases, |h: &History| {
        let stats = run_one(h, &opts, &kfs, &prop)?;
        Ok(report(&stats, classify))
    });
    check.add_part(part, rule, true, agg);
    if let Some(v) = v {
        check.violate(part, &v.case, v.failure);
    }
}

/// all sequences of length 1..=max_len over the alphabet
pub fn all_sequences<T: Clone>(alphabet: &[T], max_len: usize) -> Vec<Vec<T>> {
    let mut out: Vec<Vec<T>> = vec![];
    let mut frontier: Vec<Vec<T>> = vec![vec![]];
    for _ in 0..max_len {
        let mut next = vec![];
        for s in &frontier {
            for a in alphabet {
                let mut n = s.clone();
                n.push(a.clone());
                next.push(n);
            }
        }
        out.extend(next.iter().cloned());
        frontier = next;
    }
    out
}
