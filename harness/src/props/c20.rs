//! C20 The client library pairs answers with calls and sends what it was given.

use crate::evidence::{Check, KnownFindings};
use crate::model::*;
use crate::util::{Agg, CaseReport, Failure, RunCfg, block_on, guarded, hash_json, map_idx, run_prop};
use crate::wire::WireServer;
use proptest::prelude::*;
use serde::{Deserialize, Serialize};
use serde_json::{Value, json};
use std::sync::{Arc, Mutex};
use std::time::Duration;
use worterbuch_client as wbc;
use worterbuch_common::error::{WorterbuchError, WorterbuchResult};
use worterbuch_common::{
    CasVersion, ClientId, GraveGoods, Key, KeyValuePairs, LastWill, PStateEvent, Protocol, ProtocolMajorVersion, ProtocolVersion, RegularKeySegment, RequestPattern, ServerMessage, StateEvent,
    SubscriptionId, TransactionId, ValueEntry, WbApi,
};

pub(crate) async fn connect_client(ws: &WireServer) -> Result<wbc::Worterbuch, Failure> {
    let mut cfg = wbc::config::Config::default();
    cfg.proto = "unix".to_owned();
    cfg.socket_path = Some(ws.sock.clone());
    cfg.connection_timeout = Duration::from_secs(20);
    // the socket file exists before the server listens on it: a refused connection is retried; a
    // server that cannot be reached at all is an accident of the environment (inconclusive)
    let mut last = String::new();
    for _ in 0..400 {
        match wbc::try_connect(cfg.clone(), "127.0.0.1:1".parse().expect("addr")).await {
            Ok((wb, _on_disconnect)) => return Ok(wb),
            Err(e) => {
                last = e.to_string();
                if !last.contains("refused") {
                    break;
                }
                tokio::time::sleep(Duration::from_millis(5)).await;
            }
        }
    }
    Err(Failure::new("c20.connect", "the client library connects", last).sig(json!({"obs": "timeout"})))
}

// ------------------------------------------------------------------------------------------
// part 1: pairing of answers with concurrent calls

#[derive(Clone, Debug, PartialEq, Serialize, Deserialize)]
pub enum Call {
    Get(u8),
    CGet(u8),
    Set(u8),
    CSet(u8),
    Delete(u8),
    PGet,
    Ls,
    GetShared(u8),
    PGetShared,
}

#[derive(Clone, Debug, PartialEq, Serialize, Deserialize)]
pub struct Pairing {
    pub tasks: Vec<Vec<Call>>,
}

fn val_for(key: &str, n: u64) -> Value {
    json!({"key": key, "n": n})
}

fn encodes(v: &Value, key: &str) -> bool {
    v["key"] == json!(key)
}

fn pairing_run(case: &Pairing) -> Result<CaseReport, Failure> {
    let rt = tokio::runtime::Builder::new_multi_thread().worker_threads(4).enable_all().build().map_err(|e| Failure::new("c20.runtime", "runtime", e.to_string()))?;
    let case = case.clone();
    let res = rt.block_on(async move {
        let ws = WireServer::start("C20", |_| {}).await.map_err(|e| Failure::new("c20.server", "server starts", e))?;
        let internal = crate::interp::uuid(INTERNAL);
        for i in 0..6u8 {
            let k = format!("shared/s{i}");
            ws.server.api.set(k.clone(), val_for(&k, 0), internal).await.map_err(|e| Failure::new("c20.setup", "set", e.to_string()))?;
        }
        let wb = connect_client(&ws).await?;
        let mut handles = vec![];
        for (ti, calls) in case.tasks.iter().enumerate() {
            let wb = wb.clone();
            let calls = calls.clone();
            handles.push(tokio::spawn(async move {
                // task private keys: only this task writes them, so its own view is sequential
                let mut mine: std::collections::BTreeMap<String, (Value, u64)> = Default::default();
                let mut n = 0u64;
                for c in calls {
                    let pk = |i: u8| format!("t{ti}/k{}", i % 3);
                    match c {
                        Call::Get(i) => {
                            let k = pk(i);
                            let got = wb.get_generic(k.clone()).await.map_err(|e| format!("get {k}: {e}"))?;
                            let exp = mine.get(&k).map(|x| x.0.clone());
                            if got != exp {
                                return Err(format!("get {k}: expected {exp:?} got {got:?}"));
                            }
                        }
                        Call::CGet(i) => {
                            let k = pk(i);
                            let got = wb.cget_generic(k.clone()).await.map_err(|e| format!("cget {k}: {e}"))?;
                            let exp = mine.get(&k).cloned();
                            if got != exp {
                                return Err(format!("cget {k}: expected {exp:?} got {got:?}"));
                            }
                        }
                        Call::Set(i) => {
                            let k = pk(i);
                            n += 1;
                            let v = val_for(&k, n);
                            let res = wb.set_generic(k.clone(), v.clone()).await;
                            let is_cas = mine.get(&k).map(|x| x.1 > 0).unwrap_or(false);
                            match (is_cas, res) {
                                (false, Ok(())) => {
                                    mine.insert(k, (v, 0));
                                }
                                (true, Err(_)) => {}
                                (c, r) => return Err(format!("set {k}: cas protected {c}, result {r:?}")),
                            }
                        }
                        Call::CSet(i) => {
                            let k = pk(i);
                            n += 1;
                            let v = val_for(&k, n);
                            let ver = mine.get(&k).map(|x| x.1).unwrap_or(0);
                            wb.cset_generic(k.clone(), v.clone(), ver).await.map_err(|e| format!("cset {k}@{ver}: {e}"))?;
                            mine.insert(k, (v, ver + 1));
                        }
                        Call::Delete(i) => {
                            let k = pk(i);
                            let got = wb.delete_generic(k.clone()).await.map_err(|e| format!("delete {k}: {e}"))?;
                            let exp = mine.remove(&k).map(|x| x.0);
                            if got != exp {
                                return Err(format!("delete {k}: expected {exp:?} got {got:?}"));
                            }
                        }
                        Call::PGet => {
                            let got = wb.pget_generic(format!("t{ti}/#")).await.map_err(|e| format!("pget: {e}"))?;
                            let mut g: Vec<(String, Value)> = got.into_iter().map(|kv| (kv.key, kv.value)).collect();
                            g.sort_by(|a, b| a.0.cmp(&b.0));
                            let e: Vec<(String, Value)> = mine.iter().map(|(k, v)| (k.clone(), v.0.clone())).collect();
                            if g != e {
                                return Err(format!("pget t{ti}/#: expected {e:?} got {g:?}"));
                            }
                        }
                        Call::Ls => {
                            let got = wb.ls(Some(format!("t{ti}"))).await;
                            let mut e: Vec<String> = mine.keys().map(|k| k.split('/').nth(1).unwrap_or("").to_owned()).collect();
                            e.sort();
                            match got {
                                Ok(mut g) => {
                                    g.sort();
                                    if g != e {
                                        return Err(format!("ls t{ti}: expected {e:?} got {g:?}"));
                                    }
                                }
                                Err(err) => {
                                    if !e.is_empty() {
                                        return Err(format!("ls t{ti}: expected {e:?} got error {err}"));
                                    }
                                }
                            }
                        }
                        Call::GetShared(i) => {
                            let k = format!("shared/s{}", i % 6);
                            let got = wb.get_generic(k.clone()).await.map_err(|e| format!("get {k}: {e}"))?;
                            match got {
                                Some(v) if encodes(&v, &k) => {}
                                other => return Err(format!("get {k}: the answer belongs to another call: {other:?}")),
                            }
                        }
                        Call::PGetShared => {
                            let got = wb.pget_generic("shared/?".to_owned()).await.map_err(|e| format!("pget shared: {e}"))?;
                            if got.len() != 6 || got.iter().any(|kv| !kv.key.starts_with("shared/") || !encodes(&kv.value, &kv.key)) {
                                return Err(format!("pget shared/?: {got:?}"));
                            }
                        }
                    }
                }
                Ok::<_, String>(mine)
            }));
        }
        let mut all: Vec<(String, Value, u64)> = vec![];
        for h in handles {
            match h.await {
                Ok(Ok(mine)) => all.extend(mine.into_iter().map(|(k, v)| (k, v.0, v.1))),
                Ok(Err(e)) => return Err(Failure::new("c20.pairing", "every call resolves with the server's answer to that very call", e).sig(json!({"obs": "c20.pairing"}))),
                Err(e) => return Err(Failure::new("c20.task", "task completes", e.to_string())),
            }
        }
        // typed results equal what the server holds
        for (k, v, ver) in &all {
            let held = ws.server.api.cget(k.clone()).await.map_err(|e| Failure::new("c20.server_state", format!("{k} held by the server"), e.to_string()))?;
            if held != (v.clone(), *ver) {
                return Err(Failure::new("c20.server_state", format!("{k} = {v} @ {ver}"), format!("{held:?}")));
            }
        }
        wb.close().await.ok();
        ws.stop().await.map_err(|e| Failure::new("c20.server", "clean stop", e))?;
        let calls: usize = case.tasks.iter().map(|t| t.len()).sum();
        Ok(CaseReport {
            nontrivial: case.tasks.len() >= 16,
            classes: if case.tasks.len() >= 16 { vec!["16_or_more_tasks_in_flight"] } else { vec![] },
            counters: vec![("calls", calls as u64), ("tasks", case.tasks.len() as u64)],
            ..Default::default()
        })
    });
    rt.shutdown_timeout(Duration::from_secs(5));
    res
}

fn unreachable_is_inconclusive(r: Result<CaseReport, Failure>) -> Result<CaseReport, Failure> {
    match r {
        Err(f) if f.obs == "c20.connect" && f.signature.get("obs").and_then(|o| o.as_str()) == Some("timeout") => Ok(CaseReport { inconclusive: true, ..Default::default() }),
        other => other,
    }
}

pub fn check_pairing(case: &Pairing) -> Result<CaseReport, Failure> {
    unreachable_is_inconclusive(pairing_run(case))
}

// ------------------------------------------------------------------------------------------
// part 2: call sequences of the public API against the reference model

#[derive(Clone, Debug, PartialEq, Serialize, Deserialize)]
pub enum ApiOp {
    Set(String, u8),
    CSet(String, u8, i8),
    Get(String),
    CGet(String),
    PGet(String),
    Delete(String),
    PDelete(String, bool),
    Ls(String),
    Publish(String, u8),
    Subscribe(String, bool),
    PSubscribe(String, bool),
    Unsubscribe(u16, u8),
    SubscribeLs(String),
    /// the fire-and-forget subscribe calls (events only reach all_messages())
    SubscribeAsync(String, bool),
    PSubscribeAsync(String, bool),
    SubscribeLsAsync(String),
}

#[derive(Clone, Debug, PartialEq, Serialize, Deserialize)]
pub struct ApiCase {
    pub ops: Vec<ApiOp>,
}

enum SubRx {
    Key(tokio::sync::mpsc::UnboundedReceiver<Option<Value>>),
    Pattern(tokio::sync::mpsc::UnboundedReceiver<PStateEvent>),
    Ls(tokio::sync::mpsc::UnboundedReceiver<Vec<String>>),
    /// subscribed with a fire-and-forget call: no receiver on the client side
    Raw,
}

async fn api_run(case: &ApiCase) -> Result<CaseReport, Failure> {
    let ws = WireServer::start("C20", |_| {}).await.map_err(|e| Failure::new("c20.server", "server starts", e))?;
    let res = api_drive(case, &ws).await;
    let stop = ws.stop().await;
    let r = res?;
    stop.map_err(|e| Failure::new("c20.server", "clean stop", e))?;
    Ok(r)
}

async fn api_drive(case: &ApiCase, ws: &WireServer) -> Result<CaseReport, Failure> {
    let wb = connect_client(ws).await?;
    let mut raw = wb.all_messages().await.map_err(|e| Failure::new("c20.all_messages", "Ok", e.to_string()))?;
    let server_id: ClientId = wb.client_id().parse().map_err(|_| Failure::new("c20.client_id", "a uuid", wb.client_id()))?;
    let mut m = World::new();
    let mut fx = Effects::default();
    let me: Cid = 1;
    let k = |r: &str| format!("api/{r}");
    let mut subs: Vec<(u64, SubRx, &'static str)> = vec![];
    let mut rep = CaseReport::default();
    let mut step = 0;
    for op in &case.ops {
        step += 1;
        let fail = |obs: &str, e: String, a: String| Failure::new(obs, e, a).at(step);
        match op {
            ApiOp::Set(key, v) => {
                let key = k(key);
                let res = wb.set_generic(key.clone(), json!(v)).await;
                match (m.set_verdict(&key, false), res) {
                    (SetVerdict::Ok, Ok(())) => m.apply_set(&key, json!(v), me, &mut fx),
                    (SetVerdict::CasProtected, Err(_)) => {}
                    (e, a) => return Err(fail("c20.api.set", format!("{e:?}"), format!("{a:?}"))),
                }
            }
            ApiOp::CSet(key, v, dv) => {
                let key = k(key);
                let cur = m.get(&key).map(|e| e.version()).unwrap_or(0);
                let ver = (cur as i64 + *dv as i64).max(0) as u64;
                let res = wb.cset_generic(key.clone(), json!(v), ver).await;
                match (m.cset_verdict(&key, ver), res) {
                    (CsetVerdict::Ok(_), Ok(())) => m.apply_cset(&key, json!(v), ver, me, &mut fx),
                    (CsetVerdict::VersionMismatch, Err(_)) => {}
                    (e, a) => return Err(fail("c20.api.cset", format!("{e:?}"), format!("{a:?}"))),
                }
            }
            ApiOp::Get(key) => {
                let key = k(key);
                let got = wb.get_generic(key.clone()).await.map_err(|e| fail("c20.api.get", "Ok".into(), e.to_string()))?;
                let exp = m.get(&key).map(|e| e.value.clone());
                if got != exp {
                    return Err(fail("c20.api.get", format!("{exp:?}"), format!("{got:?}")));
                }
            }
            ApiOp::CGet(key) => {
                let key = k(key);
                let got = wb.cget_generic(key.clone()).await.map_err(|e| fail("c20.api.cget", "Ok".into(), e.to_string()))?;
                let exp = m.get(&key).map(|e| (e.value.clone(), e.version()));
                if got != exp {
                    return Err(fail("c20.api.cget", format!("{exp:?}"), format!("{got:?}")));
                }
            }
            ApiOp::PGet(p) => {
                let p = k(p);
                let got = wb.pget_generic(p.clone()).await.map_err(|e| fail("c20.api.pget", "Ok".into(), e.to_string()))?;
                let mut g: Vec<(String, Value)> = got.into_iter().map(|kv| (kv.key, kv.value)).collect();
                g.sort_by(|a, b| a.0.cmp(&b.0));
                let e = m.pget(&parse_pattern(&p));
                if g != e {
                    return Err(fail("c20.api.pget", format!("{e:?}"), format!("{g:?}")));
                }
            }
            ApiOp::Delete(key) => {
                let key = k(key);
                let got = wb.delete_generic(key.clone()).await.map_err(|e| fail("c20.api.delete", "Ok".into(), e.to_string()))?;
                let exp = m.apply_delete(&key, me, &mut fx);
                if got != exp {
                    return Err(fail("c20.api.delete", format!("{exp:?}"), format!("{got:?}")));
                }
            }
            ApiOp::PDelete(p, quiet) => {
                let p = k(p);
                let got = wb.pdelete_generic(p.clone(), *quiet).await.map_err(|e| fail("c20.api.pdelete", "Ok".into(), e.to_string()))?;
                let mut g: Vec<(String, Value)> = got.into_iter().map(|kv| (kv.key, kv.value)).collect();
                g.sort_by(|a, b| a.0.cmp(&b.0));
                let e = m.apply_pdelete(&parse_pattern(&p), me, &mut fx);
                let e = if *quiet { vec![] } else { e };
                if g != e {
                    return Err(fail("c20.api.pdelete", format!("{e:?}"), format!("{g:?}")));
                }
            }
            ApiOp::Ls(parent) => {
                let parent = k(parent);
                let got = wb.ls(Some(parent.clone())).await;
                let exp = m.ls(&split(&parent));
                match (exp, got) {
                    (Some(e), Ok(mut g)) => {
                        g.sort();
                        let e: Vec<String> = e.into_iter().collect();
                        if g != e {
                            return Err(fail("c20.api.ls", format!("{e:?}"), format!("{g:?}")));
                        }
                    }
                    (None, Err(_)) => {}
                    (e, g) => return Err(fail("c20.api.ls", format!("{e:?}"), format!("{g:?}"))),
                }
            }
            ApiOp::Publish(key, v) => {
                let key = k(key);
                wb.publish_generic(key.clone(), json!(v)).await.map_err(|e| fail("c20.api.publish", "Ok".into(), e.to_string()))?;
            }
            ApiOp::Subscribe(key, unique) => {
                let key = k(key);
                let (rx, tid) = wb.subscribe_generic(key, *unique, true).await.map_err(|e| fail("c20.api.subscribe", "Ok".into(), e.to_string()))?;
                subs.push((tid, SubRx::Key(rx), "value"));
            }
            ApiOp::PSubscribe(p, unique) => {
                let p = k(p);
                let (rx, tid) = wb.psubscribe_generic(p, *unique, true, None).await.map_err(|e| fail("c20.api.psubscribe", "Ok".into(), e.to_string()))?;
                subs.push((tid, SubRx::Pattern(rx), "value"));
            }
            ApiOp::SubscribeLs(parent) => {
                let parent = k(parent);
                let (rx, tid) = wb.subscribe_ls(Some(parent)).await.map_err(|e| fail("c20.api.subscribe_ls", "Ok".into(), e.to_string()))?;
                subs.push((tid, SubRx::Ls(rx), "ls"));
            }
            ApiOp::SubscribeAsync(key, unique) => {
                let tid = wb.subscribe_async(k(key), *unique, true).await.map_err(|e| fail("c20.api.subscribe_async", "Ok".into(), e.to_string()))?;
                // barrier: the server has processed (and acknowledged) the subscription before anything else happens
                wb.get_generic("api/__barrier__".to_owned()).await.map_err(|e| fail("c20.barrier", "Ok".into(), e.to_string()))?;
                subs.push((tid, SubRx::Raw, "value"));
                rep.classes.push("subscribed_with_a_fire_and_forget_call");
            }
            ApiOp::PSubscribeAsync(p, unique) => {
                let tid = wb.psubscribe_async(k(p), *unique, true, None).await.map_err(|e| fail("c20.api.psubscribe_async", "Ok".into(), e.to_string()))?;
                wb.get_generic("api/__barrier__".to_owned()).await.map_err(|e| fail("c20.barrier", "Ok".into(), e.to_string()))?;
                subs.push((tid, SubRx::Raw, "value"));
                rep.classes.push("subscribed_with_a_fire_and_forget_call");
            }
            ApiOp::SubscribeLsAsync(parent) => {
                let tid = wb.subscribe_ls_async(Some(k(parent))).await.map_err(|e| fail("c20.api.subscribe_ls_async", "Ok".into(), e.to_string()))?;
                wb.get_generic("api/__barrier__".to_owned()).await.map_err(|e| fail("c20.barrier", "Ok".into(), e.to_string()))?;
                subs.push((tid, SubRx::Raw, "ls"));
                rep.classes.push("subscribed_with_a_fire_and_forget_call");
            }
            ApiOp::Unsubscribe(idx, how) => {
                if subs.is_empty() {
                    continue;
                }
                let i = map_idx(*idx, subs.len());
                let (tid, _rx, kind) = subs.remove(i);
                let asynchronous = how % 2 == 1;
                // drop what the raw tap has collected so far
                while raw.try_recv().is_ok() {}
                let label = match (kind, asynchronous) {
                    ("value", false) => {
                        wb.unsubscribe(tid).await.map_err(|e| fail("c20.unsubscribe", "Ok".into(), e.to_string()))?;
                        "unsubscribe"
                    }
                    ("value", true) => {
                        wb.unsubscribe_async(tid).await.map_err(|e| fail("c20.unsubscribe_async", "Ok".into(), e.to_string()))?;
                        "unsubscribe_async"
                    }
                    (_, false) => {
                        wb.unsubscribe_ls(tid).await.map_err(|e| fail("c20.unsubscribe_ls", "Ok".into(), e.to_string()))?;
                        "unsubscribe_ls"
                    }
                    (_, true) => {
                        wb.unsubscribe_ls_async(tid).await.map_err(|e| fail("c20.unsubscribe_ls_async", "Ok".into(), e.to_string()))?;
                        "unsubscribe_ls_async"
                    }
                };
                rep.classes.push(match label {
                    "unsubscribe" => "unsubscribe",
                    "unsubscribe_async" => "unsubscribe_async",
                    "unsubscribe_ls" => "unsubscribe_ls",
                    _ => "unsubscribe_ls_async",
                });
                // barrier: answers are ordered on the connection
                wb.get_generic("api/__barrier__".to_owned()).await.map_err(|e| fail("c20.barrier", "Ok".into(), e.to_string()))?;
                let mut ack = false;
                while let Ok(msg) = raw.try_recv() {
                    match msg {
                        ServerMessage::Ack(a) if a.transaction_id == tid => ack = true,
                        ServerMessage::Err(e) if e.transaction_id == tid => {
                            return Err(fail(
                                "c20.unsubscribe.answer",
                                format!("{label}({tid}) is acknowledged by the server"),
                                format!("server answered err {} {}", e.error_code, e.metadata),
                            )
                            .sig(json!({"obs": "c20.unsubscribe.answer", "call": label})));
                        }
                        _ => {}
                    }
                }
                if !ack {
                    return Err(fail("c20.unsubscribe.answer", format!("{label}({tid}) is acknowledged by the server"), "no ack for that id before the barrier".into()).sig(json!({"obs": "c20.unsubscribe.answer", "call": label})));
                }
                // the server side subscription is gone: ending it once more through the server's own API fails
                let still = if kind == "value" {
                    ws.server.api.unsubscribe(server_id, tid).await.is_ok()
                } else {
                    ws.server.api.unsubscribe_ls(server_id, tid).await.is_ok()
                };
                if still {
                    return Err(fail("c20.unsubscribe.server_side", format!("{label}({tid}) ends the server side subscription"), "it was still registered".into()).sig(json!({"obs": "c20.unsubscribe.server_side", "call": label})));
                }
            }
        }
    }
    wb.close().await.ok();
    rep.classes.sort();
    rep.classes.dedup();
    rep.nontrivial = case.ops.len() >= 5;
    Ok(rep)
}

pub fn check_api(case: &ApiCase, _kfs: &KnownFindings) -> Result<CaseReport, Failure> {
    unreachable_is_inconclusive(block_on(api_run(case)))
}

// ------------------------------------------------------------------------------------------
// part 3: the send buffer on a paused clock

#[derive(Clone, Debug, PartialEq, Serialize, Deserialize)]
pub struct BufCall {
    pub after_ms: u16,
    pub publish: bool,
    pub key: u8,
    pub value: u16,
}

#[derive(Clone, Debug, PartialEq, Serialize, Deserialize)]
pub struct BufCase {
    pub delay_ms: u16,
    pub calls: Vec<BufCall>,
}

type Record = Arc<Mutex<Vec<(bool, String, Value)>>>;

#[derive(Clone)]
struct RecordingApi {
    record: Record,
}

fn ni<T>() -> WorterbuchResult<T> {
    Err(WorterbuchError::NotImplemented)
}

impl WbApi for RecordingApi {
    fn supported_protocol_versions(&self) -> Vec<ProtocolVersion> {
        vec![ProtocolVersion::new(1, 1)]
    }
    fn version(&self) -> &str {
        "recording"
    }
    async fn get(&self, _: Key) -> WorterbuchResult<Value> {
        ni()
    }
    async fn cget(&self, _: Key) -> WorterbuchResult<(Value, CasVersion)> {
        ni()
    }
    async fn pget(&self, _: RequestPattern) -> WorterbuchResult<KeyValuePairs> {
        ni()
    }
    async fn set(&self, key: Key, value: Value, _: ClientId) -> WorterbuchResult<()> {
        self.record.lock().expect("lock").push((false, key, value));
        Ok(())
    }
    async fn cset(&self, _: Key, _: Value, _: CasVersion, _: ClientId) -> WorterbuchResult<()> {
        ni()
    }
    async fn lock(&self, _: Key, _: ClientId) -> WorterbuchResult<()> {
        ni()
    }
    async fn acquire_lock(&self, _: Key, _: ClientId) -> WorterbuchResult<tokio::sync::oneshot::Receiver<()>> {
        ni()
    }
    async fn release_lock(&self, _: Key, _: ClientId) -> WorterbuchResult<()> {
        ni()
    }
    async fn spub_init(&self, _: TransactionId, _: Key, _: ClientId) -> WorterbuchResult<()> {
        ni()
    }
    async fn spub(&self, _: TransactionId, _: Value, _: ClientId) -> WorterbuchResult<()> {
        ni()
    }
    async fn publish(&self, key: Key, value: Value) -> WorterbuchResult<()> {
        self.record.lock().expect("lock").push((true, key, value));
        Ok(())
    }
    async fn ls(&self, _: Option<Key>) -> WorterbuchResult<Vec<RegularKeySegment>> {
        ni()
    }
    async fn pls(&self, _: Option<RequestPattern>) -> WorterbuchResult<Vec<RegularKeySegment>> {
        ni()
    }
    async fn subscribe(&self, _: ClientId, _: TransactionId, _: Key, _: bool, _: bool) -> WorterbuchResult<(tokio::sync::mpsc::Receiver<StateEvent>, SubscriptionId)> {
        ni()
    }
    async fn psubscribe(&self, _: ClientId, _: TransactionId, _: RequestPattern, _: bool, _: bool) -> WorterbuchResult<(tokio::sync::mpsc::Receiver<PStateEvent>, SubscriptionId)> {
        ni()
    }
    async fn subscribe_ls(&self, _: ClientId, _: TransactionId, _: Option<Key>) -> WorterbuchResult<(tokio::sync::mpsc::Receiver<Vec<RegularKeySegment>>, SubscriptionId)> {
        ni()
    }
    async fn unsubscribe(&self, _: ClientId, _: TransactionId) -> WorterbuchResult<()> {
        ni()
    }
    async fn unsubscribe_ls(&self, _: ClientId, _: TransactionId) -> WorterbuchResult<()> {
        ni()
    }
    async fn delete(&self, _: Key, _: ClientId) -> WorterbuchResult<Value> {
        ni()
    }
    async fn pdelete(&self, _: RequestPattern, _: ClientId) -> WorterbuchResult<KeyValuePairs> {
        ni()
    }
    async fn connected(&self, _: ClientId, _: Option<std::net::SocketAddr>, _: Protocol) -> WorterbuchResult<()> {
        Ok(())
    }
    async fn protocol_switched(&self, _: ClientId, _: ProtocolMajorVersion) -> WorterbuchResult<()> {
        Ok(())
    }
    async fn disconnected(&self, _: ClientId, _: Option<std::net::SocketAddr>) -> WorterbuchResult<()> {
        Ok(())
    }
    async fn export(&self, _: tracing::Span) -> WorterbuchResult<(Value, GraveGoods, LastWill)> {
        ni()
    }
    async fn import(&self, _: String) -> WorterbuchResult<Vec<(String, (ValueEntry, bool))>> {
        ni()
    }
    async fn entries(&self) -> WorterbuchResult<usize> {
        ni()
    }
}

pub fn check_buffer(case: &BufCase) -> Result<CaseReport, Failure> {
    let rt = tokio::runtime::Builder::new_current_thread().enable_all().start_paused(true).build().map_err(|e| Failure::new("c20.runtime", "runtime", e.to_string()))?;
    let case = case.clone();
    rt.block_on(async move {
        let record: Record = Arc::new(Mutex::new(vec![]));
        let wb = wbc::local_client_wrapper(RecordingApi { record: record.clone() });
        let delay = Duration::from_millis(case.delay_ms.max(1) as u64);
        let buf = wb.send_buffer(delay).await;
        let mut handed: Vec<(bool, String, Value)> = vec![];
        let mut hit_twice = false;
        let mut last_time: std::collections::BTreeMap<(bool, String), Duration> = Default::default();
        let start = tokio::time::Instant::now();
        for c in &case.calls {
            tokio::time::sleep(Duration::from_millis(c.after_ms as u64)).await;
            let key = format!("buf/k{}", c.key % 3);
            let value = json!(c.value);
            let now = tokio::time::Instant::now() - start;
            if let Some(t) = last_time.get(&(c.publish, key.clone()))
                && now - *t < delay
            {
                hit_twice = true;
            }
            last_time.insert((c.publish, key.clone()), now);
            let r = if c.publish { buf.publish_later(key.clone(), value.clone()).await } else { buf.set_later(key.clone(), value.clone()).await };
            r.map_err(|e| Failure::new("c20.buffer.call", "accepted", e.to_string()))?;
            handed.push((c.publish, key, value));
        }
        // well past the last delay
        for _ in 0..20 {
            tokio::time::sleep(delay).await;
            tokio::task::yield_now().await;
        }
        let sent = record.lock().expect("lock").clone();
        // per (kind, key): sent values are a subsequence of the handed-in values ending with the last one
        let mut groups: std::collections::BTreeMap<(bool, String), (Vec<Value>, Vec<Value>)> = Default::default();
        for (p, k, v) in &handed {
            groups.entry((*p, k.clone())).or_default().0.push(v.clone());
        }
        for (p, k, v) in &sent {
            match groups.get_mut(&(*p, k.clone())) {
                Some(g) => g.1.push(v.clone()),
                None => {
                    return Err(Failure::new(
                        "c20.buffer.invented",
                        "only what was handed in is sent, with the kind it was handed in with",
                        format!("{} {k} = {v} was sent but never handed in as such", if *p { "publish" } else { "set" }),
                    )
                    .sig(json!({"obs": "c20.buffer.invented"})));
                }
            }
        }
        for ((p, k), (inp, out)) in &groups {
            let kind = if *p { "publish" } else { "set" };
            let mut i = 0;
            for o in out {
                match inp[i..].iter().position(|x| x == o) {
                    Some(j) => i += j + 1,
                    None => return Err(Failure::new("c20.buffer.order", format!("{kind} {k}: a subsequence of {inp:?}"), format!("{out:?}"))),
                }
            }
            if out.last() != inp.last() {
                return Err(Failure::new(
                    "c20.buffer.latest_not_sent",
                    format!("{kind} {k}: the latest buffered value {:?} is eventually sent", inp.last()),
                    format!("sent: {out:?}"),
                )
                .sig(json!({"obs": "c20.buffer.latest_not_sent", "kind": kind})));
            }
        }
        let both_kinds_one_key = groups.keys().any(|(p, k)| !*p && groups.contains_key(&(true, k.clone())));
        let mut rep = CaseReport::default();
        if hit_twice {
            rep.classes.push("key_hit_twice_inside_one_delay_window");
        }
        if both_kinds_one_key {
            rep.classes.push("set_and_publish_on_one_key");
        }
        rep.nontrivial = hit_twice;
        // (close() on a local client wrapper waits for a signal that is only sent after close()
        // returned; the handle is simply dropped together with the runtime)
        drop(wb);
        Ok(rep)
    })
}

// ------------------------------------------------------------------------------------------

fn pairing_case(max_tasks: usize) -> BoxedStrategy<Pairing> {
    let call = prop_oneof![
        3 => (0..3u8).prop_map(Call::Get),
        2 => (0..3u8).prop_map(Call::CGet),
        4 => (0..3u8).prop_map(Call::Set),
        3 => (0..3u8).prop_map(Call::CSet),
        2 => (0..3u8).prop_map(Call::Delete),
        2 => Just(Call::PGet),
        1 => Just(Call::Ls),
        3 => (0..6u8).prop_map(Call::GetShared),
        1 => Just(Call::PGetShared),
    ];
    proptest::collection::vec(proptest::collection::vec(call, 1..=12), 8..=max_tasks).prop_map(|tasks| Pairing { tasks }).boxed()
}

fn api_case(max: usize) -> BoxedStrategy<ApiCase> {
    let key = || prop_oneof![3 => Just("a".to_owned()), 2 => Just("a/b".to_owned()), 2 => Just("b".to_owned()), 1 => Just("a/b/c".to_owned())];
    let pat = || prop_oneof![Just("#".to_owned()), Just("a/#".to_owned()), Just("?".to_owned()), Just("a/?".to_owned()), Just("?/b".to_owned())];
    let op = prop_oneof![
        6 => (key(), 0..4u8).prop_map(|(k, v)| ApiOp::Set(k, v)),
        4 => (key(), 0..4u8, -1..=1i8).prop_map(|(k, v, d)| ApiOp::CSet(k, v, d)),
        3 => key().prop_map(ApiOp::Get),
        2 => key().prop_map(ApiOp::CGet),
        2 => pat().prop_map(ApiOp::PGet),
        2 => key().prop_map(ApiOp::Delete),
        1 => (pat(), any::<bool>()).prop_map(|(p, q)| ApiOp::PDelete(p, q)),
        2 => key().prop_map(ApiOp::Ls),
        1 => (key(), 0..4u8).prop_map(|(k, v)| ApiOp::Publish(k, v)),
        2 => (key(), any::<bool>()).prop_map(|(k, u)| ApiOp::Subscribe(k, u)),
        2 => (pat(), any::<bool>()).prop_map(|(p, u)| ApiOp::PSubscribe(p, u)),
        3 => key().prop_map(ApiOp::SubscribeLs),
        2 => (key(), any::<bool>()).prop_map(|(k, u)| ApiOp::SubscribeAsync(k, u)),
        2 => (pat(), any::<bool>()).prop_map(|(p, u)| ApiOp::PSubscribeAsync(p, u)),
        2 => key().prop_map(ApiOp::SubscribeLsAsync),
        6 => (any::<u16>(), any::<u8>()).prop_map(|(i, h)| ApiOp::Unsubscribe(i, h)),
    ];
    proptest::collection::vec(op, 1..=max).prop_map(|ops| ApiCase { ops }).boxed()
}

fn buf_case(max: usize) -> BoxedStrategy<BufCase> {
    let call = (prop_oneof![5 => 0..3u16, 3 => 0..80u16, 1 => 0..400u16], any::<bool>(), 0..3u8, 0..1000u16).prop_map(|(after_ms, publish, key, value)| BufCall { after_ms, publish, key, value });
    (1..100u16, proptest::collection::vec(call, 1..=max)).prop_map(|(delay_ms, calls)| BufCase { delay_ms, calls }).boxed()
}

pub fn run(cfg: &RunCfg) -> i32 {
    let mut check = Check::new(cfg, "exploration");
    check.assume("the real worterbuch-client over the unix socket of the in-process server; pairing runs on a 4-thread runtime with 8-32 tasks on cloned handles (thread schedules are not seedable); the send buffer runs on tokio's paused clock through local_client_wrapper around a recording WbApi");
    check.assume("unsubscribe is judged on the raw server stream (all_messages) after a barrier request and on the server's own API, not on timing");
    let kfs = check.kf.clone();

    let n = cfg.cases(20_000, 400_000);
    let (agg, v) = run_prop(cfg, "buffer", n, || buf_case(25), check_buffer);
    check.add_part(
        "buffer",
        "1..=25 set_later / publish_later calls on 3 keys at generated virtual instants (bursts, gaps around the delay, both kinds on one key) with delays of 1-99 ms; after advancing well past the last delay: everything sent was handed in with that kind and key, per (kind, key) the sent values are a subsequence of the handed-in values and end with the latest one; non-trivial = a key hit twice inside one delay window; distinct = case",
        false,
        agg,
    );
    if let Some(v) = v {
        check.violate("buffer", &v.case, v.failure);
    }
    if !check.has_violation() {
        let n = cfg.cases(1_500, 40_000);
        let (agg, v) = run_prop(cfg, "api", n, || api_case(25), |c: &ApiCase| check_api(c, &kfs));
        check.add_part(
            "api",
            "single-task sequences of 1..=25 calls of the public typed API (set, cset with current/stale/future version, get, cget, pget, delete, pdelete quiet/loud, ls, publish, subscribe, psubscribe, subscribe_ls in their awaited and their fire-and-forget form, and the four unsubscribe calls on subscriptions of either origin) on a private key space against the reference model; every unsubscribe is judged on the raw server stream after a barrier (Ack and no Err for the subscription's id) and on the server's own API (subscription gone); non-trivial = >= 5 calls; distinct = case",
            false,
            agg,
        );
        if let Some(v) = v {
            check.violate("api", &v.case, v.failure);
        }
    }
    if !check.has_violation() {
        // pairing: each case needs its own multi-thread runtime; run them one after the other
        let runs = cfg.cases(40, 1_000);
        let max_tasks = cfg.tier.pick(32, 64);
        let mut agg = Agg::default();
        let mut runner = proptest::test_runner::TestRunner::new(proptest::test_runner::Config {
            rng_seed: proptest::test_runner::RngSeed::Fixed(crate::util::mix(cfg.seed, "C20/pairing", 0)),
            failure_persistence: None,
            ..Default::default()
        });
        use proptest::strategy::{Strategy, ValueTree};
        let strat = pairing_case(max_tasks);
        for _ in 0..runs {
            let case = strat.new_tree(&mut runner).expect("tree").current();
            match guarded(|| check_pairing(&case)) {
                Ok(rep) => agg.merge_case(hash_json(&case), &rep, || serde_json::to_value(&case).unwrap_or(Value::Null)),
                Err(f) => {
                    agg.evaluations += 1;
                    check.violate("pairing", &case, f);
                    break;
                }
            }
        }
        check.add_part(
            "pairing",
            "8..=32 tasks on cloned handles of one connection, each issuing 1..=12 generated calls (get/cget/set/cset/delete/pget/ls on task private keys whose values encode their key, reads of shared planted keys) concurrently on a 4-thread runtime; every typed result must be the answer to that very call (task-sequential expectation on private keys, key encoded in every value), and the final values equal what the server holds; non-trivial = >= 16 tasks; distinct = case",
            false,
            agg,
        );
    }
    check.finish()
}
