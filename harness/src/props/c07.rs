//! C07 Session end buries grave goods, publishes the last will, cleans up, nothing else.

use super::hist::*;
use crate::evidence::Check;
use crate::interp::{HistStats, Opts};
use crate::ops::*;
use crate::util::{RunCfg, run_prop};
use proptest::prelude::*;

fn classify(s: &HistStats) -> (bool, Vec<&'static str>) {
    let mut classes = vec![];
    if s.disconnects > 0 {
        classes.push("has_disconnect");
    }
    if s.disconnects_with_both_regs > 0 {
        classes.push("leaving_client_had_grave_goods_and_last_will");
    }
    if s.gg_matched_foreign > 0 {
        classes.push("grave_good_matched_existing_keys");
    }
    if s.lw_over_cas_or_buried > 0 {
        classes.push("last_will_over_cas_or_buried_key");
    }
    if s.handovers > 0 || s.lock_cancels > 0 {
        classes.push("lock_handed_over_or_cancelled");
    }
    (
        s.disconnects_with_both_regs > 0 && s.gg_matched_foreign > 0 && s.lw_over_cas_or_buried > 0,
        classes,
    )
}

pub fn opts() -> Opts {
    Opts {
        readback: true,
        events: true,
        ls: true,
        locks: true,
        sys: false,
        fold: false,
        observer: true,
        readback_every: 1,
    }
}

pub fn weights() -> Weights {
    Weights {
        connect: 8,
        disconnect: 12,
        set: 16,
        iset: 1,
        cset: 8,
        delete: 3,
        pdelete: 2,
        import: 1,
        publish: 1,
        spub: 3,
        reads: 0,
        subscribe: 3,
        psubscribe: 5,
        unsubscribe: 1,
        subscribe_ls: 2,
        unsubscribe_ls: 0,
        lock: 3,
        acquire: 4,
        release: 2,
        registrations: 18,
        bad_patterns: 1,
        sys_targets: 3,
        reset: 1,
    }
}

/// structured histories: a few keys are written (half of them CAS protected), every client
/// registers grave goods and a last will that refer to those keys, random requests follow, then
/// the clients leave in a generated order with random requests in between
pub fn scenario(max_ops: usize) -> BoxedStrategy<History> {
    let keys = proptest::collection::vec((key(), any::<bool>(), small_value()), 2..=5);
    (
        keys,
        proptest::collection::vec((0..4u8, proptest::collection::vec((any::<u16>(), 0..6u8), 0..=3), proptest::collection::vec((any::<u16>(), small_value()), 0..=3)), 1..=4),
        proptest::collection::vec(op(&weights(), 4), 0..=max_ops / 2),
        proptest::collection::vec((0..4u8, proptest::collection::vec(op(&weights(), 4), 0..=3)), 1..=4),
    )
        .prop_map(|(keys, regs, middle, leaves)| {
            let mut ops = vec![];
            for (i, (k, cas, v)) in keys.iter().enumerate() {
                if *cas {
                    ops.push(Op::CSet { c: (i % 4) as u8, key: k.clone(), value: v.clone(), ver: Ver::Abs(0) });
                } else {
                    ops.push(Op::Set { c: (i % 4) as u8, key: k.clone(), value: v.clone() });
                }
            }
            for (c, ggs, lws) in regs {
                let patterns: Vec<String> = ggs
                    .iter()
                    .map(|(i, how)| {
                        let k = &keys[crate::util::map_idx(*i, keys.len())].0;
                        let mut segs: Vec<&str> = k.split('/').collect();
                        match how {
                            0 | 1 => k.clone(),
                            2 => {
                                segs.pop();
                                segs.push("?");
                                segs.join("/")
                            }
                            3 => {
                                segs.pop();
                                segs.push("#");
                                segs.join("/")
                            }
                            4 => format!("{k}/#"),
                            _ => {
                                segs[0] = "?";
                                segs.join("/")
                            }
                        }
                    })
                    .collect();
                let will: Vec<serde_json::Value> = lws
                    .iter()
                    .map(|(i, v)| serde_json::json!({"key": keys[crate::util::map_idx(*i, keys.len())].0, "value": v}))
                    .collect();
                ops.push(Op::SetGraveGoods { c, patterns: serde_json::json!(patterns) });
                ops.push(Op::SetLastWill { c, will: serde_json::Value::Array(will) });
            }
            ops.extend(middle);
            for (c, between) in leaves {
                ops.push(Op::Disconnect(c));
                ops.extend(between);
            }
            History { preconnected: 4, ops }
        })
        .boxed()
}

pub fn run(cfg: &RunCfg) -> i32 {
    let mut check = Check::new(cfg, "exploration");
    check.assume("direct core engine: a session end is the core's `disconnected` call, which is what the tcp/unix/ws servers invoke when a connection ends for any reason");
    check.assume("events generated for the leaving client's own subscriptions while its session is being closed are not observable by anybody and are ignored");
    let n = cfg.cases(60_000, 1_500_000);
    let max_ops = cfg.tier.pick(40, 120);
    random_part(
        &mut check,
        cfg,
        "random",
        "seeded random histories of up to 4 clients connecting, (re-)registering grave goods (overlapping patterns, wildcards, $SYS patterns, invalid patterns) and last wills (plain, CAS-protected, buried and $SYS targets), writing, subscribing, opening publish streams, locking and disconnecting in generated order; oracle after every request: the whole store incl. $SYS, every remaining subscription's events (bury before will per key), ls-subscriptions, locks and pending acquire requests equal the model's session-end procedure; non-trivial = the leaving client had both registrations, a grave good matched existing keys and a last-will target was CAS-protected or buried by the same session end; distinct = history",
        weights(),
        4,
        max_ops,
        n,
        opts(),
        classify,
    );
    if !check.has_violation() {
        let kfs = check.kf.clone();
        let prop = cfg.prop.clone();
        let o = opts();
        let n = cfg.cases(60_000, 1_500_000);
        let (agg, v) = run_prop(
            cfg,
            "scenario",
            n,
            || scenario(max_ops),
            |h: &History| {
                let stats = run_one(h, &o, &kfs, &prop)?;
                Ok(report(&stats, classify))
            },
        );
        check.add_part(
            "scenario",
            "structured histories: 2-5 keys written (half CAS protected), clients register grave goods derived from those keys (the key, sibling wildcard, parent/#, key/#, first-segment wildcard) and last wills aimed at them, random requests, then the clients leave in generated order with random requests in between; same oracle and non-triviality rule",
            false,
            agg,
        );
        if let Some(v) = v {
            check.violate("scenario", &v.case, v.failure);
        }
    }
    if !check.has_violation() {
        check.assume("wire part: the end of a session has been processed when the client's own $SYS entries are gone (polled by the observer for at most 10 s of answered polls); a harness-side timeout on an answer is inconclusive");
        super::c07w::part(&mut check, cfg);
    }
    check.finish()
}
