//! C17 No client input takes the server down or disturbs other sessions.

use crate::evidence::{Check, KnownFindings};
use crate::props::c14;
use crate::util::{CaseReport, Failure, RunCfg, block_on, run_prop};
use crate::wire::{Recv, Session, WireServer, kind_and_tid};
use proptest::prelude::*;
use serde::{Deserialize, Serialize};
use serde_json::{Value, json};
use std::time::Duration;

#[derive(Clone, Debug, PartialEq, Serialize, Deserialize)]
pub enum Mutation {
    None,
    Truncate(u16),
    FlipBit(u16, u8),
    InsertByte(u16, u8),
    DeleteByte(u16),
    /// replace the first run of digits by this text
    ReplaceNumber(String),
    Duplicate,
}

#[derive(Clone, Debug, PartialEq, Serialize, Deserialize)]
pub enum Line {
    /// a structurally valid message (any kind, absurd fields) with an optional byte level mutation
    Message(Value, Mutation),
    /// arbitrary JSON that is not a message
    Json(Value),
    /// verbatim bytes (lossy utf-8 in the replay file is avoided by storing bytes)
    Bytes(Vec<u8>),
    /// a well formed set whose value is a string of n bytes
    BigValue(u32),
    /// a key of n segments, written and deleted again
    DeepKey(u16),
    /// a garbage line of n bytes without newline
    LongGarbage(u32),
    ProtocolSwitch(u32),
    /// the witness does a round trip here
    Witness,
}

#[derive(Clone, Debug, PartialEq, Serialize, Deserialize)]
pub struct Case {
    pub lines: Vec<Line>,
    /// run the server with extended monitoring (the default of the server binary): subscriptions
    /// and locks are then mirrored under $SYS by the server itself
    #[serde(default)]
    pub extended_monitoring: bool,
}

fn mutate(mut b: Vec<u8>, m: &Mutation) -> Vec<Vec<u8>> {
    let at = |i: u16, len: usize| if len == 0 { 0 } else { (i as usize * len) >> 16 };
    match m {
        Mutation::None => {}
        Mutation::Truncate(i) => {
            let n = at(*i, b.len());
            b.truncate(n);
        }
        Mutation::FlipBit(i, bit) => {
            if !b.is_empty() {
                let n = at(*i, b.len());
                b[n] ^= 1 << (bit % 8);
            }
        }
        Mutation::InsertByte(i, x) => {
            let n = at(*i, b.len() + 1);
            b.insert(n.min(b.len()), *x);
        }
        Mutation::DeleteByte(i) => {
            if !b.is_empty() {
                let n = at(*i, b.len());
                b.remove(n);
            }
        }
        Mutation::ReplaceNumber(t) => {
            if let Some(start) = b.iter().position(|c| c.is_ascii_digit()) {
                let end = b[start..].iter().position(|c| !c.is_ascii_digit()).map(|e| start + e).unwrap_or(b.len());
                b.splice(start..end, t.bytes());
            }
        }
        Mutation::Duplicate => return vec![b.clone(), b],
    }
    // a mutation may have introduced a line break: that simply makes two lines
    vec![b]
}

fn line_bytes(l: &Line) -> Vec<Vec<u8>> {
    match l {
        Line::Message(v, m) => mutate(v.to_string().into_bytes(), m),
        Line::Json(v) => vec![v.to_string().into_bytes()],
        Line::Bytes(b) => vec![b.clone()],
        Line::BigValue(n) => {
            let s = "x".repeat(*n as usize);
            vec![json!({"set": {"transactionId": 7, "key": "big/value", "value": s}}).to_string().into_bytes()]
        }
        Line::DeepKey(n) => {
            let key = vec!["d"; (*n).max(1) as usize].join("/");
            vec![
                json!({"set": {"transactionId": 8, "key": key, "value": 1}}).to_string().into_bytes(),
                json!({"pGet": {"transactionId": 9, "requestPattern": format!("{key}/#")}}).to_string().into_bytes(),
                json!({"delete": {"transactionId": 10, "key": key}}).to_string().into_bytes(),
                json!({"pDelete": {"transactionId": 11, "requestPattern": "d/#"}}).to_string().into_bytes(),
            ]
        }
        Line::LongGarbage(n) => vec![vec![b'a'; *n as usize]],
        Line::ProtocolSwitch(v) => vec![json!({"protocolSwitchRequest": {"version": v}}).to_string().into_bytes()],
        Line::Witness => vec![],
    }
}

struct Witness {
    s: Session,
    round: u64,
    sub_tid: u64,
    inbox: Vec<Value>,
}

impl Witness {
    async fn expect(&mut self, what: &str, pred: impl Fn(&Value) -> bool) -> Result<Value, Failure> {
        // events of the standing subscription may be interleaved with answers (an event can even
        // overtake the ack of the set that caused it): messages that are not the awaited one are kept
        if let Some(i) = self.inbox.iter().position(|v| pred(v)) {
            return Ok(self.inbox.remove(i));
        }
        let deadline = tokio::time::Instant::now() + Duration::from_secs(20);
        loop {
            match self.s.recv(Duration::from_secs(20)).await {
                Recv::Msg(v) => {
                    if std::env::var("VERIF_DEBUG").is_ok() {
                        eprintln!("witness <- {v} (waiting for {what})");
                    }
                    if pred(&v) {
                        return Ok(v);
                    }
                    if v.get("err").is_some() {
                        return Err(Failure::new("c17.witness", format!("the witness' {what} succeeds"), v.to_string()).sig(json!({"obs": "c17.witness"})));
                    }
                    if self.inbox.len() < 10_000 {
                        self.inbox.push(v);
                    }
                }
                Recv::Closed => return Err(Failure::new("c17.witness", format!("the witness' {what} is answered"), "witness session closed by the server").sig(json!({"obs": "c17.witness_closed"}))),
                Recv::Timeout => return Err(Failure::new("c17.witness_timeout", format!("the witness' {what} is answered within 20 s"), "no answer").sig(json!({"obs": "timeout"}))),
                Recv::Garbage(l) => return Err(Failure::new("c17.witness", "JSON", l)),
            }
            if tokio::time::Instant::now() > deadline {
                return Err(Failure::new("c17.witness_timeout", format!("the witness' {what} is answered within 20 s"), "no answer").sig(json!({"obs": "timeout"})));
            }
        }
    }

    async fn start(sock: &std::path::PathBuf) -> Result<Witness, Failure> {
        let s = Session::connect(sock).await.map_err(|e| Failure::new("c17.witness", "the witness can connect", e).sig(json!({"obs": "c17.witness"})))?;
        let mut w = Witness { s, round: 0, sub_tid: 1, inbox: vec![] };
        w.s.send_json(&json!({"pSubscribe": {"transactionId": 1, "requestPattern": "witness/#", "unique": false, "liveOnly": true}})).await;
        w.expect("pSubscribe", |v| kind_and_tid(v) == Some(("ack".into(), 1))).await?;
        Ok(w)
    }

    async fn round_trip(&mut self) -> Result<(), Failure> {
        self.round += 1;
        let r = self.round;
        let key = format!("witness/r{r}/k");
        let val = json!({"round": r, "payload": [1, "two", null]});
        let t = 100 + r * 10;
        self.s.send_json(&json!({"set": {"transactionId": t, "key": key, "value": val}})).await;
        self.expect("set", |v| kind_and_tid(v) == Some(("ack".into(), t))).await?;
        let k2 = key.clone();
        let v2 = val.clone();
        let sub = self.sub_tid;
        self.expect("subscription event", move |v| {
            v["pState"]["transactionId"].as_u64() == Some(sub) && v["pState"]["keyValuePairs"].as_array().map(|a| a.iter().any(|kv| kv["key"] == k2.as_str() && kv["value"] == v2)).unwrap_or(false)
        })
        .await?;
        self.s.send_json(&json!({"get": {"transactionId": t + 1, "key": key}})).await;
        let v3 = val.clone();
        self.expect("get", move |v| v["state"]["transactionId"].as_u64() == Some(t + 1) && v["state"]["value"] == v3).await?;
        self.s.send_json(&json!({"pGet": {"transactionId": t + 2, "requestPattern": format!("witness/r{r}/#")}})).await;
        let k4 = key.clone();
        let v4 = val.clone();
        self.expect("pGet", move |v| {
            v["pState"]["transactionId"].as_u64() == Some(t + 2) && v["pState"]["keyValuePairs"].as_array().map(|a| a.len() == 1 && a[0]["key"] == k4.as_str() && a[0]["value"] == v4).unwrap_or(false)
        })
        .await?;
        self.s.send_json(&json!({"cSet": {"transactionId": t + 3, "key": format!("witness/r{r}/c"), "value": r, "version": 0}})).await;
        self.expect("cSet", |v| kind_and_tid(v) == Some(("ack".into(), t + 3))).await?;
        self.s.send_json(&json!({"delete": {"transactionId": t + 4, "key": key}})).await;
        let v5 = val;
        self.expect("delete", move |v| v["state"]["transactionId"].as_u64() == Some(t + 4) && v["state"]["deleted"] == v5).await?;
        Ok(())
    }
}

struct Hostile {
    s: Option<Session>,
    sessions: u64,
    accepted: u64,
    rejected: u64,
    closed_by_server: u64,
    /// sessions that were neither answered nor closed within 5 s and were given up
    left_open: u64,
}

impl Hostile {
    fn tally(&mut self, msgs: Vec<Value>) {
        for m in msgs {
            if m.get("err").is_some() {
                self.rejected += 1;
            } else if m.get("welcome").is_none() {
                self.accepted += 1;
            }
        }
    }

    async fn ensure(&mut self, sock: &std::path::PathBuf) -> Result<(), Failure> {
        let dead = self.s.as_ref().map(|s| s.closed).unwrap_or(true);
        if dead {
            if self.s.is_some() {
                self.closed_by_server += 1;
            }
            let s = Session::connect(sock).await.map_err(|e| Failure::new("c17.connect", "a new session can be opened", e).sig(json!({"obs": "c17.connect"})))?;
            self.s = Some(s);
            self.sessions += 1;
        }
        Ok(())
    }

    /// wait until the server has processed everything this session sent (answer to a sentinel or closure)
    async fn quiesce(&mut self) -> Result<(), Failure> {
        let Some(s) = self.s.as_mut() else { return Ok(()) };
        if s.closed {
            return Ok(());
        }
        let sentinel = 0xFEED_FACE_0000_0000u64 + self.sessions;
        s.send_json(&json!({"get": {"transactionId": sentinel, "key": "hostile/__sentinel__"}})).await;
        let mut seen = vec![];
        let mut timed_out = false;
        let deadline = tokio::time::Instant::now() + Duration::from_secs(5);
        loop {
            let left = deadline.saturating_duration_since(tokio::time::Instant::now());
            match s.recv(left).await {
                Recv::Msg(v) => {
                    let done = kind_and_tid(&v).map(|(_, t)| t == sentinel).unwrap_or(false);
                    if done {
                        break;
                    }
                    seen.push(v);
                }
                Recv::Garbage(_) => {}
                Recv::Closed => break,
                Recv::Timeout => {
                    // Neither answered nor closed within 5 s: the server has ended the session internally
                    // but keeps its socket open (e.g. after two subscriptions with one id: the first one's
                    // forwarding task lives on) - not what this property is about. The session is given up
                    // (a new one is opened for the next line) and the witness is checked all the same.
                    timed_out = true;
                    break;
                }
            }
        }
        self.tally(seen);
        if timed_out {
            self.s = None;
            self.left_open += 1;
        }
        Ok(())
    }
}

async fn run_case(case: &Case, _kfs: &KnownFindings) -> Result<CaseReport, Failure> {
    let panics_before = crate::util::panic_count();
    let em = case.extended_monitoring;
    let ws = WireServer::start("C17", |c| c.extended_monitoring = em).await.map_err(|e| Failure::new("c17.server", "server starts", e))?;
    let res = drive(case, &ws).await;
    let crashed = ws.server.is_finished();
    let stop = ws.stop().await;
    if crate::util::panic_count() != panics_before {
        let msg = crate::util::last_panic().unwrap_or_default();
        return Err(Failure::new("c17.panic", "no task of the server panics", &msg).sig(json!({"obs": "c17.panic", "message": msg})));
    }
    let rep = match res {
        Ok(r) => r,
        Err(f) => {
            if f.signature.get("obs").and_then(|o| o.as_str()) == Some("timeout") && !crashed && stop.is_ok() {
                if std::env::var("VERIF_DEBUG").is_ok() {
                    eprintln!("inconclusive: {} {} {}", f.obs, f.expected, f.actual);
                    std::fs::write("/tmp/c17_inconclusive.json", json!({"case": case, "part": "debug"}).to_string()).ok();
                }
                return Ok(CaseReport { inconclusive: true, ..Default::default() });
            }
            if crashed || stop.is_err() {
                return Err(Failure::new("c17.server_down", "the server keeps running", format!("{stop:?}; first symptom: {} {}", f.obs, f.actual)).sig(json!({"obs": "c17.server_down"})));
            }
            return Err(f);
        }
    };
    if crashed || stop.is_err() {
        return Err(Failure::new("c17.server_down", "the server keeps running and stops cleanly", format!("{stop:?}")).sig(json!({"obs": "c17.server_down"})));
    }
    Ok(rep)
}

async fn drive(case: &Case, ws: &WireServer) -> Result<CaseReport, Failure> {
    let mut w = Witness::start(&ws.sock).await?;
    w.round_trip().await?;
    let mut h = Hostile { s: None, sessions: 0, accepted: 0, rejected: 0, closed_by_server: 0, left_open: 0 };
    let mut kinds: Vec<&'static str> = vec![];
    for l in &case.lines {
        if let Line::Witness = l {
            h.quiesce().await?;
            w.round_trip().await?;
            continue;
        }
        h.ensure(&ws.sock).await?;
        kinds.push(match l {
            Line::Message(_, Mutation::None) => "message",
            Line::Message(_, _) => "mutated_message",
            Line::Json(_) => "json",
            Line::Bytes(_) => "bytes",
            Line::BigValue(_) => "big_value",
            Line::DeepKey(_) => "deep_key",
            Line::LongGarbage(_) => "long_garbage",
            Line::ProtocolSwitch(_) => "protocol_switch",
            Line::Witness => "witness",
        });
        let s = h.s.as_mut().expect("ensured");
        let dbg = std::env::var("VERIF_DEBUG").is_ok();
        let mut gave_up = false;
        for b in line_bytes(l) {
            let mut b = b;
            b.push(b'\n');
            if dbg {
                eprintln!("hostile session {}: sending {} bytes", h.sessions, b.len());
            }
            // a session the server has ended internally without closing its socket does not read any
            // more: a large line would block the writer for ever
            match tokio::time::timeout(Duration::from_secs(5), s.send_raw(&b)).await {
                Ok(true) => {}
                Ok(false) => {
                    s.closed = true;
                    break;
                }
                Err(_) => {
                    gave_up = true;
                    break;
                }
            }
            if dbg {
                eprintln!("hostile session {}: sent", h.sessions);
            }
        }
        let msgs = s.drain();
        h.tally(msgs);
        if gave_up {
            // a write that is cancelled half way leaves a torn line behind: the session is dropped
            h.s = None;
            h.left_open += 1;
        }
    }
    h.quiesce().await?;
    w.round_trip().await?;
    // a brand new client is served as well
    let mut fresh = Witness::start(&ws.sock).await?;
    fresh.round = 1_000_000;
    fresh.round_trip().await?;
    let mut rep = CaseReport::default();
    rep.counters = vec![
        ("hostile_sessions", h.sessions),
        ("hostile_sessions_closed_by_server", h.closed_by_server),
        ("accepted_messages", h.accepted),
        ("rejected_messages", h.rejected),
        ("hostile_sessions_neither_answered_nor_closed_within_5s", h.left_open),
    ];
    kinds.sort();
    kinds.dedup();
    for k in kinds {
        rep.classes.push(k);
    }
    if case.extended_monitoring {
        rep.classes.push("extended_monitoring_on");
    }
    if h.closed_by_server > 0 {
        rep.classes.push("hostile_session_closed_by_server");
    }
    rep.nontrivial = h.accepted >= 1 && (h.rejected >= 1 || h.closed_by_server >= 1);
    Ok(rep)
}

pub fn check_case(case: &Case, kfs: &KnownFindings) -> Result<CaseReport, Failure> {
    block_on(run_case(case, kfs))
}

fn mutation() -> BoxedStrategy<Mutation> {
    prop_oneof![
        6 => Just(Mutation::None),
        2 => any::<u16>().prop_map(Mutation::Truncate),
        2 => (any::<u16>(), any::<u8>()).prop_map(|(i, b)| Mutation::FlipBit(i, b)),
        2 => (any::<u16>(), prop_oneof![Just(0u8), Just(0xffu8), Just(b'"'), Just(b'{'), Just(b'\\'), any::<u8>()]).prop_map(|(i, b)| Mutation::InsertByte(i, b)),
        1 => any::<u16>().prop_map(Mutation::DeleteByte),
        2 => prop_oneof![Just("18446744073709551616".to_owned()), Just("-1".to_owned()), Just("1e400".to_owned()), Just("0.5".to_owned()), Just("99999999999999999999999999".to_owned()), Just("null".to_owned())].prop_map(Mutation::ReplaceNumber),
        1 => Just(Mutation::Duplicate),
    ]
    .boxed()
}

fn special_bytes() -> BoxedStrategy<Vec<u8>> {
    prop_oneof![
        Just(b"".to_vec()),
        Just(b"null".to_vec()),
        Just(b"{}".to_vec()),
        Just(b"[]".to_vec()),
        Just(b"{\"set\":null}".to_vec()),
        Just(b"{\"set\":{}}".to_vec()),
        Just(b"{\"set\":{\"transactionId\":1}}".to_vec()),
        Just(b"{\"nope\":{\"transactionId\":1}}".to_vec()),
        Just(b"{\"get\":{\"transactionId\":\"1\",\"key\":\"a\"}}".to_vec()),
        Just(b"{\"get\":{\"transactionId\":1,\"key\":5}}".to_vec()),
        Just(vec![0u8]),
        Just(vec![0xff, 0xfe, 0xfd]),
        Just(b"\"just a string\"".to_vec()),
        Just(b"{\"authorizationRequest\":{\"authToken\":\"x\"}}".to_vec()),
        Just("[".repeat(1000).into_bytes()),
        Just("{\"a\":".repeat(200).into_bytes()),
        proptest::collection::vec(any::<u8>().prop_map(|b| if b == b'\n' { b' ' } else { b }), 0..200),
    ]
    .boxed()
}

fn line() -> BoxedStrategy<Line> {
    prop_oneof![
        30 => (c14::client_message(), mutation()).prop_map(|(m, mu)| Line::Message(serde_json::to_value(&m).unwrap_or(Value::Null), mu)),
        3 => crate::jgen::value(true, true).prop_map(Line::Json),
        6 => special_bytes().prop_map(Line::Bytes),
        1 => prop_oneof![Just(1u32 << 10), Just(1 << 16), Just(1 << 20)].prop_map(Line::BigValue),
        1 => prop_oneof![Just(10u16), Just(200), Just(1500)].prop_map(Line::DeepKey),
        1 => prop_oneof![Just(70_000u32), Just(1 << 20)].prop_map(Line::LongGarbage),
        2 => prop_oneof![Just(0u32), Just(1), Just(2), Just(u32::MAX)].prop_map(Line::ProtocolSwitch),
        4 => Just(Line::Witness),
    ]
    .boxed()
}

pub fn run(cfg: &RunCfg) -> i32 {
    let mut check = Check::new(cfg, "exploration");
    check.assume("wire engine: whole server in process (debug assertions and overflow checks enabled in the build profile), hostile input over the unix socket; the hostile sessions always keep reading their socket (a client that stops reading is behaviour, not input)");
    check.assume("the witness uses fresh keys in every round trip and starts a round trip only after every hostile session has been brought to a quiescent point (sentinel answered or session closed), so that legitimate effects of the hostile input (e.g. pdelete #) cannot make a witness request fail");
    check.assume("keys are limited to 1500 segments in process: the store's recursive functions run on the harness thread's 16 MB stack; deeper keys are exercised against a real server process in C18's engine only");
    let kfs = check.kf.clone();
    let n = cfg.cases(3_000, 150_000);
    let max = cfg.tier.pick(30, 80);
    let (agg, v) = run_prop(
        cfg,
        "random",
        n,
        move || (proptest::collection::vec(line(), 1..=max), any::<bool>()).prop_map(|(lines, extended_monitoring)| Case { lines, extended_monitoring }).boxed(),
        |c: &Case| check_case(c, &kfs),
    );
    check.add_part(
        "random",
        "1..=30 hostile lines per case: structurally valid messages of every kind with absurd ids/keys/patterns/versions/values (grammar based), byte level mutations of such lines (truncation, bit flips, inserted NUL/0xff/quote bytes, out-of-range numbers, duplicates), arbitrary JSON, special lines (empty, null, wrong types, invalid UTF-8, 1000-fold nesting, 1 MiB values and garbage, keys of 1500 segments), protocol switches incl. unsupported versions, in any order, with witness round trips (set, subscription event, get, pGet, cSet, delete with checked contents) before, between and after, plus a brand new client at the end; oracle: every witness request succeeds with the right content, no panic / server task termination, clean stop; non-trivial = the server accepted >= 1 hostile message and rejected >= 1 (or closed the hostile session); distinct = case",
        false,
        agg,
    );
    if let Some(v) = v {
        check.violate("random", &v.case, v.failure);
    }
    if cfg.tier == crate::util::Tier::Thorough && !check.has_violation() {
        crate::fuzzrun::run_campaign(
            &mut check,
            cfg,
            &crate::fuzzrun::Campaign {
                target: "session_ops",
                server_feature: true,
                runs: (1_000_000.0 * cfg.scale) as u64,
                max_len: 2000,
                rule: "coverage guided libFuzzer campaign, socket free: bytes split into lines are fed to the protocol handler of a fresh in-process server per iteration, a witness uses the server's API before and after, the server must stop cleanly; any panic aborts and is reported with the input; evaluations = executed inputs, distinct non-trivial = inputs that reached new coverage",
            },
        );
    }
    check.finish()
}
