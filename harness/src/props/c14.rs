//! C14 Every protocol message survives encoding and decoding unchanged.

use crate::evidence::Check;
use crate::jgen;
use crate::model::{Entry, render_store_json};
use crate::ops;
use crate::util::{CaseReport, Failure, RunCfg, run_prop};
use proptest::prelude::*;
use serde::{Deserialize, Serialize};
use serde_json::{Value, json};
use worterbuch::verif::{ClientWriteCommand, LeaderSyncMessage, StateSync, StoreNode};
use worterbuch_common::*;

/// a message of one of the three families, kept as the JSON text of its own canonical encoding
/// plus the family, so that cases can be replayed from a file
#[derive(Clone, Debug, Serialize, Deserialize)]
pub enum Msg {
    Client(ClientMessage),
    Server(ServerMessage),
    /// cluster sync message as JSON (it has no PartialEq / contains hash maps)
    Sync(Value),
}

fn tid() -> BoxedStrategy<u64> {
    prop_oneof![
        3 => 0..5u64,
        1 => Just(u64::MAX),
        1 => Just(u64::MAX - 1),
        1 => Just(i64::MAX as u64),
        1 => Just(i64::MAX as u64 + 1),
        1 => Just(1u64 << 53),
        1 => Just((1u64 << 53) + 1),
        2 => any::<u64>(),
    ]
    .boxed()
}

fn keyish() -> BoxedStrategy<String> {
    prop_oneof![4 => ops::key(), 2 => ops::pattern(), 1 => ops::bad_pattern(), 2 => jgen::string(), 1 => Just("$SYS/clients/?/graveGoods".to_owned())].boxed()
}

fn val() -> BoxedStrategy<Value> {
    jgen::value(true, true)
}

fn opt<T: std::fmt::Debug + Clone + 'static>(s: BoxedStrategy<T>) -> BoxedStrategy<Option<T>> {
    proptest::option::weighted(0.6, s).boxed()
}

pub fn client_message() -> BoxedStrategy<ClientMessage> {
    prop_oneof![
        any::<u32>().prop_map(|version| ClientMessage::ProtocolSwitchRequest(ProtocolSwitchRequest { version })),
        jgen::string().prop_map(|auth_token| ClientMessage::AuthorizationRequest(AuthorizationRequest { auth_token })),
        (tid(), keyish()).prop_map(|(transaction_id, key)| ClientMessage::Get(Get { transaction_id, key })),
        (tid(), keyish()).prop_map(|(transaction_id, key)| ClientMessage::CGet(Get { transaction_id, key })),
        (tid(), keyish()).prop_map(|(transaction_id, request_pattern)| ClientMessage::PGet(PGet { transaction_id, request_pattern })),
        (tid(), keyish(), val()).prop_map(|(transaction_id, key, value)| ClientMessage::Set(Set { transaction_id, key, value })),
        (tid(), keyish(), val(), tid()).prop_map(|(transaction_id, key, value, version)| ClientMessage::CSet(CSet { transaction_id, key, value, version })),
        (tid(), keyish()).prop_map(|(transaction_id, key)| ClientMessage::SPubInit(SPubInit { transaction_id, key })),
        (tid(), val()).prop_map(|(transaction_id, value)| ClientMessage::SPub(SPub { transaction_id, value })),
        (tid(), keyish(), val()).prop_map(|(transaction_id, key, value)| ClientMessage::Publish(Publish { transaction_id, key, value })),
        (tid(), keyish(), any::<bool>(), opt(any::<bool>().boxed()))
            .prop_map(|(transaction_id, key, unique, live_only)| ClientMessage::Subscribe(Subscribe { transaction_id, key, unique, live_only })),
        (tid(), keyish(), any::<bool>(), opt(tid()), opt(any::<bool>().boxed())).prop_map(|(transaction_id, request_pattern, unique, aggregate_events, live_only)| {
            ClientMessage::PSubscribe(PSubscribe { transaction_id, request_pattern, unique, aggregate_events, live_only })
        }),
        tid().prop_map(|transaction_id| ClientMessage::Unsubscribe(Unsubscribe { transaction_id })),
        (tid(), keyish()).prop_map(|(transaction_id, key)| ClientMessage::Delete(Delete { transaction_id, key })),
        (tid(), keyish(), opt(any::<bool>().boxed())).prop_map(|(transaction_id, request_pattern, quiet)| ClientMessage::PDelete(PDelete { transaction_id, request_pattern, quiet })),
        (tid(), opt(keyish())).prop_map(|(transaction_id, parent)| ClientMessage::Ls(Ls { transaction_id, parent })),
        (tid(), opt(keyish())).prop_map(|(transaction_id, parent_pattern)| ClientMessage::PLs(PLs { transaction_id, parent_pattern })),
        (tid(), opt(keyish())).prop_map(|(transaction_id, parent)| ClientMessage::SubscribeLs(SubscribeLs { transaction_id, parent })),
        tid().prop_map(|transaction_id| ClientMessage::UnsubscribeLs(UnsubscribeLs { transaction_id })),
        (tid(), keyish()).prop_map(|(transaction_id, key)| ClientMessage::Lock(Lock { transaction_id, key })),
        (tid(), keyish()).prop_map(|(transaction_id, key)| ClientMessage::AcquireLock(Lock { transaction_id, key })),
        (tid(), keyish()).prop_map(|(transaction_id, key)| ClientMessage::ReleaseLock(Lock { transaction_id, key })),
        (tid(), keyish(), val()).prop_map(|(transaction_id, key, template)| ClientMessage::Transform(Transform { transaction_id, key, template })),
    ]
    .boxed()
}

fn kvps() -> BoxedStrategy<KeyValuePairs> {
    proptest::collection::vec((keyish(), val()).prop_map(|(key, value)| KeyValuePair { key, value }), 0..4).boxed()
}

fn error_code() -> BoxedStrategy<ErrorCode> {
    prop_oneof![
        Just(ErrorCode::IllegalWildcard),
        Just(ErrorCode::IllegalMultiWildcard),
        Just(ErrorCode::MultiWildcardAtIllegalPosition),
        Just(ErrorCode::IoError),
        Just(ErrorCode::SerdeError),
        Just(ErrorCode::NoSuchValue),
        Just(ErrorCode::NotSubscribed),
        Just(ErrorCode::ProtocolNegotiationFailed),
        Just(ErrorCode::InvalidServerResponse),
        Just(ErrorCode::ReadOnlyKey),
        Just(ErrorCode::AuthorizationFailed),
        Just(ErrorCode::AuthorizationRequired),
        Just(ErrorCode::AlreadyAuthorized),
        Just(ErrorCode::MissingValue),
        Just(ErrorCode::Unauthorized),
        Just(ErrorCode::NoPubStream),
        Just(ErrorCode::NotLeader),
        Just(ErrorCode::Cas),
        Just(ErrorCode::CasVersionMismatch),
        Just(ErrorCode::NotImplemented),
        Just(ErrorCode::KeyIsLocked),
        Just(ErrorCode::KeyIsNotLocked),
        Just(ErrorCode::LockAcquisitionCancelled),
        Just(ErrorCode::FeatureDisabled),
        Just(ErrorCode::ClientIDCollision),
        Just(ErrorCode::EmptyKey),
        Just(ErrorCode::Other),
    ]
    .boxed()
}

fn server_message() -> BoxedStrategy<ServerMessage> {
    prop_oneof![
        (jgen::string(), proptest::collection::vec((any::<u32>(), any::<u32>()), 0..3), any::<bool>(), jgen::string()).prop_map(|(version, pv, auth, client_id)| {
            let versions: Vec<ProtocolVersion> = pv.into_iter().map(|(a, b)| ProtocolVersion::new(a, b)).collect();
            ServerMessage::Welcome(Welcome { info: ServerInfo::new(version, versions.into_boxed_slice(), auth), client_id })
        }),
        (tid(), keyish(), kvps(), any::<bool>()).prop_map(|(transaction_id, request_pattern, kvps, deleted)| {
            ServerMessage::PState(PState {
                transaction_id,
                request_pattern,
                event: if deleted { PStateEvent::Deleted(kvps) } else { PStateEvent::KeyValuePairs(kvps) },
            })
        }),
        tid().prop_map(|transaction_id| ServerMessage::Ack(Ack { transaction_id })),
        (tid(), val(), any::<bool>()).prop_map(|(transaction_id, v, deleted)| {
            ServerMessage::State(State { transaction_id, event: if deleted { StateEvent::Deleted(v) } else { StateEvent::Value(v) } })
        }),
        (tid(), val(), tid()).prop_map(|(transaction_id, value, version)| ServerMessage::CState(CState { transaction_id, event: CStateEvent { value, version } })),
        (tid(), error_code(), jgen::string()).prop_map(|(transaction_id, error_code, metadata)| ServerMessage::Err(Err { transaction_id, error_code, metadata })),
        tid().prop_map(|transaction_id| ServerMessage::Authorized(Ack { transaction_id })),
        (tid(), proptest::collection::vec(jgen::string(), 0..4)).prop_map(|(transaction_id, children)| ServerMessage::LsState(LsState { transaction_id, children })),
    ]
    .boxed()
}

fn sync_message() -> BoxedStrategy<Value> {
    let entries = proptest::collection::vec((ops::key(), val(), prop_oneof![2 => Just(None), 1 => tid().prop_map(Some)]), 0..5);
    prop_oneof![
        2 => (entries, proptest::collection::vec(keyish(), 0..3), kvps()).prop_map(|(entries, gg, lw)| {
            let es: Vec<(String, Entry)> = entries
                .into_iter()
                .filter(|(k, v, cas)| !k.is_empty() && !(cas.is_none() && crate::model::looks_like_cas_tag(v)))
                .map(|(k, value, cas)| (k, Entry { value, cas }))
                .collect();
            let store: Value = serde_json::from_str(&render_store_json(&es)).expect("valid json");
            json!({"init": [store["data"], gg, lw]})
        }),
        1 => (keyish(), val(), any::<bool>()).prop_map(|(k, v, f)| json!({"mut": {"set": [k, v, f]}})),
        1 => (keyish(), val(), tid(), any::<bool>()).prop_map(|(k, v, ver, f)| json!({"mut": {"cSet": [k, v, ver, f]}})),
        1 => keyish().prop_map(|k| json!({"mut": {"delete": k}})),
        1 => keyish().prop_map(|k| json!({"mut": {"pDelete": k}})),
    ]
    .boxed()
}

fn msg() -> BoxedStrategy<Msg> {
    prop_oneof![
        4 => client_message().prop_map(Msg::Client),
        4 => server_message().prop_map(Msg::Server),
        2 => sync_message().prop_map(Msg::Sync),
    ]
    .boxed()
}

fn single_line(s: &str) -> Result<(), Failure> {
    if s.contains('\n') || s.contains('\r') {
        return Err(Failure::new("c14.single_line", "an encoding without line breaks", s));
    }
    Ok(())
}

fn embedded_values(v: &Value, out: &mut Vec<Value>) {
    // the payload values of a message in its JSON form (fields named value / template / keyValuePairs / deleted)
    if let Value::Object(o) = v {
        for (k, x) in o {
            if k == "value" || k == "template" {
                out.push(x.clone());
            }
            embedded_values(x, out);
        }
    } else if let Value::Array(a) = v {
        for x in a {
            embedded_values(x, out);
        }
    }
}

pub fn check_msg(m: &Msg) -> Result<CaseReport, Failure> {
    let mut rep = CaseReport::default();
    let encoded: String;
    match m {
        Msg::Client(c) => {
            let s = serde_json::to_string(c).map_err(|e| Failure::new("c14.encode", "Ok", e.to_string()))?;
            single_line(&s)?;
            let back: ClientMessage = serde_json::from_str(&s).map_err(|e| Failure::new("c14.decode", format!("decodes: {s}"), e.to_string()))?;
            if &back != c {
                return Err(Failure::new("c14.roundtrip", format!("{c:?}"), format!("{back:?}")).sig(json!({"obs":"c14.roundtrip","family":"client"})));
            }
            let again = serde_json::to_string(&back).map_err(|e| Failure::new("c14.encode", "Ok", e.to_string()))?;
            if again != s {
                return Err(Failure::new("c14.encoding_is_a_function", &s, &again));
            }
            rep.classes.push("client_message");
            encoded = s;
        }
        Msg::Server(c) => {
            let s = serde_json::to_string(c).map_err(|e| Failure::new("c14.encode", "Ok", e.to_string()))?;
            single_line(&s)?;
            let back: ServerMessage = serde_json::from_str(&s).map_err(|e| Failure::new("c14.decode", format!("decodes: {s}"), e.to_string()))?;
            if &back != c {
                return Err(Failure::new("c14.roundtrip", format!("{c:?}"), format!("{back:?}")).sig(json!({"obs":"c14.roundtrip","family":"server"})));
            }
            let again = serde_json::to_string(&back).map_err(|e| Failure::new("c14.encode", "Ok", e.to_string()))?;
            if again != s {
                return Err(Failure::new("c14.encoding_is_a_function", &s, &again));
            }
            rep.classes.push("server_message");
            encoded = s;
        }
        Msg::Sync(v) => {
            let msg: LeaderSyncMessage = serde_json::from_value(v.clone()).map_err(|e| Failure::new("c14.sync.build", format!("the generated JSON is a sync message: {v}"), e.to_string()))?;
            let s = serde_json::to_string(&msg).map_err(|e| Failure::new("c14.encode", "Ok", e.to_string()))?;
            single_line(&s)?;
            let back: LeaderSyncMessage = serde_json::from_str(&s).map_err(|e| Failure::new("c14.decode", format!("decodes: {s}"), e.to_string()))?;
            let same = match (&msg, &back) {
                (LeaderSyncMessage::Init(StateSync(a, g1, l1)), LeaderSyncMessage::Init(StateSync(b, g2, l2))) => {
                    let a: &StoreNode = a;
                    a == b && g1 == g2 && l1 == l2
                }
                (LeaderSyncMessage::Mut(a), LeaderSyncMessage::Mut(b)) => match (a, b) {
                    (ClientWriteCommand::Set(k1, v1, f1), ClientWriteCommand::Set(k2, v2, f2)) => k1 == k2 && v1 == v2 && f1 == f2,
                    (ClientWriteCommand::CSet(k1, v1, n1, f1), ClientWriteCommand::CSet(k2, v2, n2, f2)) => k1 == k2 && v1 == v2 && n1 == n2 && f1 == f2,
                    (ClientWriteCommand::Delete(k1), ClientWriteCommand::Delete(k2)) => k1 == k2,
                    (ClientWriteCommand::PDelete(k1), ClientWriteCommand::PDelete(k2)) => k1 == k2,
                    _ => false,
                },
                _ => false,
            };
            // what was said: the generated JSON, what is understood: the re-encoded decoded message
            let understood = serde_json::to_value(&back).map_err(|e| Failure::new("c14.encode", "Ok", e.to_string()))?;
            if !same || &understood != v {
                return Err(Failure::new("c14.roundtrip", format!("{v}"), format!("{understood}")).sig(json!({"obs":"c14.roundtrip","family":"sync"})));
            }
            rep.classes.push("sync_message");
            encoded = s;
        }
    }
    let as_value: Value = serde_json::from_str(&encoded).unwrap_or(Value::Null);
    let mut vals = vec![];
    embedded_values(&as_value, &mut vals);
    let big = vals.iter().any(|v| jgen::node_count(v) >= 3);
    let float = vals.iter().any(jgen::has_float);
    let boundary = encoded.contains("18446744073709551615") || encoded.contains("18446744073709551614") || encoded.contains("9223372036854775808");
    if big {
        rep.classes.push("embeds_value_of_3_or_more_nodes");
    }
    if float {
        rep.classes.push("embeds_fractional_number");
    }
    if boundary {
        rep.classes.push("u64_boundary_number");
    }
    rep.nontrivial = big || boundary;
    Ok(rep)
}

pub fn run(cfg: &RunCfg) -> i32 {
    let mut check = Check::new(cfg, "exploration");
    check.assume("encoding = serde_json::to_string, decoding = serde_json::from_str on the public message types (what every transport does line by line); cluster sync messages are built from generated JSON because their tree type has no public constructor, and compared as decoded structures and as re-encoded JSON values (their maps have no stable order)");
    let n = cfg.cases(300_000, 10_000_000);
    let (agg, v) = run_prop(cfg, "random", n, msg, check_msg);
    check.add_part(
        "random",
        "every variant of ClientMessage (23), ServerMessage (8) and LeaderSyncMessage (Init + 4 Mut) with generated fields: transaction ids / versions at u64 and 2^53 boundaries, keys and patterns incl. empty/unicode/wildcard/line-break strings, optional fields present/absent, nested JSON values with raw-bit floats and objects whose keys collide with envelope field names; oracle: encoding is one line, decode(encode(m)) == m, encode(decode(encode(m))) == encode(m); non-trivial = embeds a value of >= 3 nodes or a u64-boundary number; distinct = message",
        false,
        agg,
    );
    if let Some(v) = v {
        check.violate("random", &v.case, v.failure);
    }
    if cfg.tier == crate::util::Tier::Thorough && !check.has_violation() {
        crate::fuzzrun::run_campaign(
            &mut check,
            cfg,
            &crate::fuzzrun::Campaign {
                target: "wire_roundtrip",
                server_feature: false,
                runs: (5_000_000.0 * cfg.scale) as u64,
                max_len: 600,
                rule: "coverage guided libFuzzer campaign, decode direction: arbitrary bytes (seed corpus: the golden messages of the repository's tests) that decode as a client or server message must re-encode to one line that decodes to an equal message and is a fixed point of encode; evaluations = executed inputs, distinct non-trivial = inputs that reached new coverage",
            },
        );
    }
    check.finish()
}
