//! C16 Aggregated pattern subscriptions batch events without losing or reordering them.

use crate::evidence::{Check, KnownFindings};
use crate::util::{CaseReport, Failure, RunCfg, block_on, run_prop};
use crate::wire::{Recv, Session, WireServer};
use proptest::prelude::*;
use serde::{Deserialize, Serialize};
use serde_json::{Value, json};
use std::collections::BTreeMap;
use std::time::Duration;
use worterbuch::verif::PStateAggregator;
use worterbuch_common::{KeyValuePair, PStateEvent, ServerMessage};

// ------------------------------------------------------------------------------------------
// part 1: the aggregator on a paused clock (timing explored deterministically)

#[derive(Clone, Debug, PartialEq, Serialize, Deserialize)]
pub struct Ev {
    /// virtual milliseconds after the previous event
    pub after_ms: u16,
    pub deleted: bool,
    /// (key index, value) pairs of this event
    pub pairs: Vec<(u8, u8)>,
}

#[derive(Clone, Debug, PartialEq, Serialize, Deserialize)]
pub struct DelayCase {
    pub interval_ms: u16,
    pub events: Vec<Ev>,
}

type Flat = (String, Value, bool);

fn check_content(input: &[Flat], output: &[Flat]) -> Result<(), Failure> {
    // per key: the same sequence of set / deleted events
    let mut ik: BTreeMap<&String, Vec<(&Value, bool)>> = BTreeMap::new();
    let mut ok: BTreeMap<&String, Vec<(&Value, bool)>> = BTreeMap::new();
    for (k, v, d) in input {
        ik.entry(k).or_default().push((v, *d));
    }
    for (k, v, d) in output {
        ok.entry(k).or_default().push((v, *d));
    }
    if ik != ok {
        for (k, seq) in &ik {
            if ok.get(k) != Some(seq) {
                return Err(Failure::new("c16.content", format!("key {k}: {seq:?}"), format!("{:?}", ok.get(k))).sig(json!({"obs": "c16.content"})));
            }
        }
        let extra: Vec<_> = ok.keys().filter(|k| !ik.contains_key(*k)).collect();
        return Err(Failure::new("c16.content", "only keys that had events", format!("{extra:?}")));
    }
    Ok(())
}

pub fn check_delay(case: &DelayCase) -> Result<CaseReport, Failure> {
    let rt = tokio::runtime::Builder::new_current_thread()
        .enable_all()
        .start_paused(true)
        .build()
        .map_err(|e| Failure::new("c16.runtime", "runtime", e.to_string()))?;
    let case = case.clone();
    rt.block_on(async move {
        let d = Duration::from_millis(case.interval_ms.max(1) as u64);
        let (tx, mut rx) = tokio::sync::mpsc::channel::<ServerMessage>(100_000);
        let agg = PStateAggregator::new(tx, "p/#".to_owned(), d, 7, 100_000, uuid::Uuid::from_u128(1));
        let start = tokio::time::Instant::now();
        let mut input: Vec<(Flat, Duration)> = vec![];
        let mut output: Vec<(Flat, Duration)> = vec![];
        let collect = |rx: &mut tokio::sync::mpsc::Receiver<ServerMessage>, output: &mut Vec<(Flat, Duration)>| {
            while let Ok(m) = rx.try_recv() {
                let now = tokio::time::Instant::now() - start;
                if let ServerMessage::PState(p) = m {
                    let (kvps, del) = match p.event {
                        PStateEvent::KeyValuePairs(k) => (k, false),
                        PStateEvent::Deleted(k) => (k, true),
                    };
                    for kv in kvps {
                        output.push(((kv.key, kv.value, del), now));
                    }
                }
            }
        };
        let (mut same_key_in_interval, mut kind_change_in_interval) = (false, false);
        let mut last_kind: Option<(bool, Duration)> = None;
        let mut last_seen: BTreeMap<String, Duration> = BTreeMap::new();
        for ev in &case.events {
            // let virtual time pass in steps of 1 ms so that emissions are time stamped exactly
            for _ in 0..ev.after_ms {
                tokio::time::sleep(Duration::from_millis(1)).await;
                tokio::task::yield_now().await;
                collect(&mut rx, &mut output);
            }
            let now = tokio::time::Instant::now() - start;
            let kvps: Vec<KeyValuePair> = ev.pairs.iter().map(|(k, v)| KeyValuePair { key: format!("p/k{}", k % 4), value: json!(v) }).collect();
            if kvps.is_empty() {
                continue;
            }
            for kv in &kvps {
                if let Some(t) = last_seen.get(&kv.key)
                    && now - *t < d
                {
                    same_key_in_interval = true;
                }
                last_seen.insert(kv.key.clone(), now);
                input.push(((kv.key.clone(), kv.value.clone(), ev.deleted), now));
            }
            if let Some((k, t)) = last_kind
                && k != ev.deleted
                && now - t < d
            {
                kind_change_in_interval = true;
            }
            last_kind = Some((ev.deleted, now));
            let event = if ev.deleted { PStateEvent::Deleted(kvps) } else { PStateEvent::KeyValuePairs(kvps) };
            agg.aggregate(event).await.map_err(|e| Failure::new("c16.aggregate", "accepted", e.to_string()))?;
            tokio::task::yield_now().await;
            collect(&mut rx, &mut output);
        }
        // let more than one interval pass after the last event
        for _ in 0..(case.interval_ms as u32 + 5) {
            tokio::time::sleep(Duration::from_millis(1)).await;
            tokio::task::yield_now().await;
            collect(&mut rx, &mut output);
        }
        let inp: Vec<Flat> = input.iter().map(|x| x.0.clone()).collect();
        let out: Vec<Flat> = output.iter().map(|x| x.0.clone()).collect();
        check_content(&inp, &out)?;
        // delay: the n-th event of a key is emitted no later than interval after it arrived
        let mut seen: BTreeMap<&String, usize> = BTreeMap::new();
        for (flat, t_in) in &input {
            let n = seen.entry(&flat.0).or_default();
            let t_out = output.iter().filter(|(f, _)| f.0 == flat.0).nth(*n).map(|x| x.1).expect("content was equal");
            *n += 1;
            if t_out > *t_in + d + Duration::from_millis(1) {
                return Err(Failure::new(
                    "c16.delay",
                    format!("event {:?} arriving at {:?} is sent by {:?}", flat, t_in, *t_in + d),
                    format!("sent at {t_out:?}"),
                )
                .sig(json!({"obs": "c16.delay"})));
            }
            if t_out < *t_in {
                return Err(Failure::new("c16.causality", "sent after it arrived", format!("{flat:?} {t_in:?} {t_out:?}")));
            }
        }
        let mut rep = CaseReport::default();
        if same_key_in_interval {
            rep.classes.push("key_repeated_within_one_interval");
        }
        if kind_change_in_interval {
            rep.classes.push("delete_after_set_or_set_after_delete_within_one_interval");
        }
        rep.nontrivial = same_key_in_interval && kind_change_in_interval;
        rep.counters = vec![("events", input.len() as u64)];
        drop(agg);
        Ok(rep)
    })
}

// ------------------------------------------------------------------------------------------
// part 2: content on a live session (timing independent oracle)

#[derive(Clone, Debug, PartialEq, Serialize, Deserialize)]
pub enum Wr {
    Set(u8, u8),
    Delete(u8),
    PDelete,
    /// pause in real milliseconds
    Pause(u8),
}

#[derive(Clone, Debug, PartialEq, Serialize, Deserialize)]
pub struct ContentCase {
    pub interval_ms: u8,
    pub initial: Vec<(u8, u8)>,
    pub writes: Vec<Wr>,
}

async fn run_content(case: &ContentCase) -> Result<CaseReport, Failure> {
    let ws = WireServer::start("C16", |_| {}).await.map_err(|e| Failure::new("c16.server", "server starts", e))?;
    let res = drive_content(case, &ws).await;
    let crashed = ws.server.is_finished();
    let stop = ws.stop().await;
    if crashed || stop.is_err() {
        return Err(Failure::new("c16.server_down", "the server keeps running", format!("{stop:?}")));
    }
    match res {
        Err(f) if f.signature.get("obs").and_then(|o| o.as_str()) == Some("timeout") => Ok(CaseReport { inconclusive: true, ..Default::default() }),
        other => other,
    }
}

async fn drive_content(case: &ContentCase, ws: &WireServer) -> Result<CaseReport, Failure> {
    let mut writer = Session::connect(&ws.sock).await.map_err(|e| Failure::new("c16.connect", "welcome", e))?;
    let mut tid = 100u64;
    let mut send = async |s: &mut Session, msg: Value| -> Result<(), Failure> {
        let t = msg.as_object().and_then(|o| o.values().next()).and_then(|b| b["transactionId"].as_u64()).unwrap_or(0);
        s.send_json(&msg).await;
        loop {
            match s.recv(Duration::from_secs(20)).await {
                Recv::Msg(v) => {
                    if crate::wire::kind_and_tid(&v).map(|x| x.1) == Some(t) {
                        return Ok(());
                    }
                }
                Recv::Timeout => return Err(Failure::new("c16.timeout", "answer", "none").sig(json!({"obs": "timeout"}))),
                other => return Err(Failure::new("c16.writer", "answer", format!("{other:?}"))),
            }
        }
    };
    for (k, v) in &case.initial {
        tid += 1;
        send(&mut writer, json!({"set": {"transactionId": tid, "key": format!("agg/k{}", k % 5), "value": v}})).await?;
    }
    let mut reader = Session::connect(&ws.sock).await.map_err(|e| Failure::new("c16.connect", "welcome", e))?;
    let d = case.interval_ms.max(1) as u64;
    reader.send_json(&json!({"pSubscribe": {"transactionId": 1, "requestPattern": "agg/#", "unique": false}})).await;
    reader.send_json(&json!({"pSubscribe": {"transactionId": 2, "requestPattern": "agg/#", "unique": false, "aggregateEvents": d}})).await;
    // wait for both acks and both snapshots before writing
    let mut plain: Vec<Value> = vec![];
    let mut aggregated: Vec<Value> = vec![];
    let mut acks = 0;
    while acks < 2 || plain.is_empty() || aggregated.is_empty() {
        match reader.recv(Duration::from_secs(20)).await {
            Recv::Msg(v) => {
                if v.get("ack").is_some() {
                    acks += 1;
                } else if v["pState"]["transactionId"] == json!(1) {
                    plain.push(v);
                } else if v["pState"]["transactionId"] == json!(2) {
                    aggregated.push(v);
                } else {
                    return Err(Failure::new("c16.reader", "acks and snapshots", v.to_string()));
                }
            }
            Recv::Timeout => return Err(Failure::new("c16.timeout", "snapshots", "none").sig(json!({"obs": "timeout"}))),
            other => return Err(Failure::new("c16.reader", "acks and snapshots", format!("{other:?}"))),
        }
    }
    // the snapshot is forwarded unbatched and equal for both subscriptions
    let snap = |v: &Value| -> Vec<(String, Value)> {
        let mut s: Vec<(String, Value)> = v["pState"]["keyValuePairs"].as_array().map(|a| a.iter().map(|kv| (kv["key"].as_str().unwrap_or("").to_owned(), kv["value"].clone())).collect()).unwrap_or_default();
        s.sort_by(|a, b| a.0.cmp(&b.0));
        s
    };
    if snap(&plain[0]) != snap(&aggregated[0]) || plain[0]["pState"].get("keyValuePairs").is_none() {
        return Err(Failure::new("c16.snapshot", plain[0].to_string(), aggregated[0].to_string()));
    }
    let (mut repeated, mut alternation) = (false, false);
    let mut last: Option<&Wr> = None;
    for w in &case.writes {
        tid += 1;
        match w {
            Wr::Set(k, v) => send(&mut writer, json!({"set": {"transactionId": tid, "key": format!("agg/k{}", k % 5), "value": v}})).await?,
            Wr::Delete(k) => send(&mut writer, json!({"delete": {"transactionId": tid, "key": format!("agg/k{}", k % 5)}})).await?,
            Wr::PDelete => send(&mut writer, json!({"pDelete": {"transactionId": tid, "requestPattern": "agg/?"}})).await?,
            Wr::Pause(ms) => tokio::time::sleep(Duration::from_millis(*ms as u64)).await,
        }
        if let (Some(Wr::Set(a, _)), Wr::Set(b, _)) = (last, w)
            && a % 5 == b % 5
        {
            repeated = true;
        }
        if matches!((last, w), (Some(Wr::Set(..)), Wr::Delete(_) | Wr::PDelete) | (Some(Wr::Delete(_) | Wr::PDelete), Wr::Set(..))) {
            alternation = true;
        }
        if !matches!(w, Wr::Pause(_)) {
            last = Some(w);
        }
    }
    // marker inside the pattern: once it arrived on both streams everything before it did as well
    tid += 1;
    send(&mut writer, json!({"set": {"transactionId": tid, "key": "agg/marker", "value": tid}})).await?;
    let has_marker = |msgs: &[Value]| msgs.iter().any(|m| m["pState"]["keyValuePairs"].as_array().map(|a| a.iter().any(|kv| kv["key"] == "agg/marker" && kv["value"] == json!(tid))).unwrap_or(false));
    while !(has_marker(&plain[1..]) && has_marker(&aggregated[1..])) {
        match reader.recv(Duration::from_secs(20)).await {
            Recv::Msg(v) => {
                if v["pState"]["transactionId"] == json!(1) {
                    plain.push(v);
                } else if v["pState"]["transactionId"] == json!(2) {
                    aggregated.push(v);
                } else {
                    return Err(Failure::new("c16.reader", "events of the two subscriptions", v.to_string()));
                }
            }
            Recv::Timeout => return Err(Failure::new("c16.timeout", "marker on both streams", "none").sig(json!({"obs": "timeout"}))),
            other => return Err(Failure::new("c16.reader", "events", format!("{other:?}"))),
        }
    }
    let flatten = |msgs: &[Value]| -> Vec<Flat> {
        let mut out = vec![];
        for m in msgs {
            let (arr, del) = if let Some(a) = m["pState"]["keyValuePairs"].as_array() { (a, false) } else if let Some(a) = m["pState"]["deleted"].as_array() { (a, true) } else { continue };
            for kv in arr {
                out.push((kv["key"].as_str().unwrap_or("").to_owned(), kv["value"].clone(), del));
            }
        }
        out
    };
    let p = flatten(&plain[1..]);
    let a = flatten(&aggregated[1..]);
    check_content(&p, &a)?;
    let batches = aggregated.len() - 1;
    let mut rep = CaseReport::default();
    if repeated {
        rep.classes.push("key_repeated_in_consecutive_writes");
    }
    if alternation {
        rep.classes.push("set_delete_alternation");
    }
    if batches < p.len() {
        rep.classes.push("events_were_batched");
    }
    rep.counters = vec![("events", p.len() as u64), ("batches", batches as u64)];
    rep.nontrivial = repeated && alternation;
    Ok(rep)
}

pub fn check_content_case(case: &ContentCase, _kfs: &KnownFindings) -> Result<CaseReport, Failure> {
    block_on(run_content(case))
}

fn delay_case(max: usize) -> BoxedStrategy<DelayCase> {
    let ev = (
        prop_oneof![6 => 0..3u16, 3 => 0..60u16, 1 => 0..300u16],
        prop_oneof![3 => Just(false), 1 => Just(true)],
        proptest::collection::vec((0..4u8, 0..3u8), 1..=2),
    )
        .prop_map(|(after_ms, deleted, pairs)| {
            // one event never names a key twice
            let mut seen = std::collections::BTreeSet::new();
            let pairs = pairs.into_iter().filter(|(k, _)| seen.insert(*k)).collect();
            Ev { after_ms, deleted, pairs }
        });
    (1..100u16, proptest::collection::vec(ev, 1..=max)).prop_map(|(interval_ms, events)| DelayCase { interval_ms, events }).boxed()
}

fn content_case(max: usize) -> BoxedStrategy<ContentCase> {
    let w = prop_oneof![
        8 => (0..5u8, 0..4u8).prop_map(|(k, v)| Wr::Set(k, v)),
        3 => (0..5u8).prop_map(Wr::Delete),
        1 => Just(Wr::PDelete),
        2 => (0..12u8).prop_map(Wr::Pause),
    ];
    (1..30u8, proptest::collection::vec((0..5u8, 0..4u8), 0..=3), proptest::collection::vec(w, 1..=max))
        .prop_map(|(interval_ms, initial, writes)| ContentCase { interval_ms, initial, writes })
        .boxed()
}

pub fn run(cfg: &RunCfg) -> i32 {
    let mut check = Check::new(cfg, "exploration");
    check.assume("delay part: the real aggregator (PStateAggregator, hook re-export) on tokio's paused clock with a client channel that always has free capacity; virtual time is advanced in 1 ms steps, so arrival and emission instants are exact");
    check.assume("content part: live unix-socket session with two subscriptions of the same pattern (plain and aggregated); the oracle is timing independent (per key event sequences of the concatenated batches == those of the plain stream, read until a marker arrived on both)");
    let kfs = check.kf.clone();
    let n = cfg.cases(30_000, 1_000_000);
    let max = cfg.tier.pick(25, 60);
    let (agg, v) = run_prop(cfg, "delay", n, move || delay_case(max), check_delay);
    check.add_part(
        "delay",
        "1..=25 events (sets and deletes of 1-2 of 4 keys, values from a pool of 3 so that repeats occur) fed to the aggregator at generated virtual instants (bursts, gaps around the interval) for intervals of 1-99 ms; oracle: per key the emitted sequence equals the fed sequence (nothing lost, duplicated or reordered) and every event is emitted no later than its arrival + interval; non-trivial = a key repeated within one interval and a set/delete alternation within one interval; distinct = case",
        false,
        agg,
    );
    if let Some(v) = v {
        check.violate("delay", &v.case, v.failure);
    }
    if !check.has_violation() {
        let n = cfg.cases(1_500, 50_000);
        let max = cfg.tier.pick(20, 50);
        let (agg, v) = run_prop(cfg, "content", n, move || content_case(max), |c: &ContentCase| check_content_case(c, &kfs));
        check.add_part(
            "content",
            "live sessions: initial keys, then 1..=20 writes (set / delete / pdelete / short pauses) to 5 keys inside the subscribed pattern with aggregation intervals of 1-29 ms; snapshot equal and unbatched for both subscriptions, then per key event sequences of the aggregated stream == plain stream; non-trivial = a key written twice in a row and a set/delete alternation; distinct = case",
            false,
            agg,
        );
        if let Some(v) = v {
            check.violate("content", &v.case, v.failure);
        }
    }
    check.finish()
}
