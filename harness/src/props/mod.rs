pub mod c01;
pub mod hist;

use crate::evidence::KnownFindings;
use crate::util::RunCfg;
use serde_json::Value;

pub const ALL: &[&str] = &["C01"];

pub fn run(cfg: &RunCfg) -> i32 {
    match cfg.prop.as_str() {
        "C01" => c01::run(cfg),
        other => {
            eprintln!("unknown property {other}");
            2
        }
    }
}

/// re-execute a saved case in strict mode (known findings are not tolerated): exit 1 if it fails
pub fn replay(prop: &str, file: &str) -> i32 {
    let text = match std::fs::read_to_string(file) {
        Ok(t) => t,
        Err(e) => {
            eprintln!("cannot read {file}: {e}");
            return 2;
        }
    };
    let v: Value = match serde_json::from_str(&text) {
        Ok(v) => v,
        Err(e) => {
            eprintln!("invalid replay file: {e}");
            return 2;
        }
    };
    let part = v["part"].as_str().unwrap_or("").to_owned();
    let case = v["case"].clone();
    let strict = KnownFindings::default();
    let res: Result<(), crate::util::Failure> = match prop {
        "C01" => replay_history(&case, &c01::opts(), &strict, prop),
        other => {
            eprintln!("unknown property {other}");
            return 2;
        }
    };
    let _ = part;
    match res {
        Ok(()) => {
            println!("replay of {file}: passed");
            0
        }
        Err(f) => {
            println!("replay of {file}: FAILED at step {:?}: {} expected {} actual {}", f.step, f.obs, f.expected, f.actual);
            println!("VIOLATION property={prop} replay={file}");
            1
        }
    }
}

pub fn replay_history(case: &Value, opts: &crate::interp::Opts, kfs: &KnownFindings, prop: &str) -> Result<(), crate::util::Failure> {
    let h: crate::ops::History = serde_json::from_value(case.clone()).map_err(|e| crate::util::Failure::new("replay.parse", "a history", e.to_string()))?;
    hist::run_one(&h, opts, kfs, prop).map(|_| ())
}
