pub mod c01;
pub mod c02;
pub mod c03;
pub mod c03w;
pub mod c04;
pub mod c05;
pub mod c06;
pub mod c07;
pub mod c07w;
pub mod c08;
pub mod c09;
pub mod c10;
pub mod c11;
pub mod c12;
pub mod c13;
pub mod c13l;
pub mod c14;
pub mod c15;
pub mod c16;
pub mod c17;
pub mod c18;
pub mod c19;
pub mod c19r;
pub mod c20;
pub mod hist;

use crate::evidence::KnownFindings;
use crate::interp::Opts;
use crate::util::{Failure, RunCfg};
use serde_json::Value;

pub const ALL: &[&str] = &["C01", "C02", "C03", "C04", "C05", "C06", "C07", "C08"];

pub fn run(cfg: &RunCfg) -> i32 {
    match cfg.prop.as_str() {
        "C01" => c01::run(cfg),
        "C02" => c02::run(cfg),
        "C03" => c03::run(cfg),
        "C04" => c04::run(cfg),
        "C05" => c05::run(cfg),
        "C06" => c06::run(cfg),
        "C07" => c07::run(cfg),
        "C08" => c08::run(cfg),
        "C09" => c09::run(cfg),
        "C10" => c10::run(cfg),
        "C11" => c11::run(cfg),
        "C12" => c12::run(cfg),
        "C13" => c13::run(cfg),
        "C14" => c14::run(cfg),
        "C15" => c15::run(cfg),
        "C16" => c16::run(cfg),
        "C17" => c17::run(cfg),
        "C18" => c18::run(cfg),
        "C19" => c19::run(cfg),
        "C20" => c20::run(cfg),
        other => {
            eprintln!("unknown property {other}");
            2
        }
    }
}

/// the oracle configuration of the history based checks
fn hist_opts(prop: &str) -> Option<Opts> {
    match prop {
        "C01" => Some(c01::opts()),
        "C03" => Some(c03::opts()),
        "C05" => Some(c05::opts()),
        "C06" => Some(c06::opts()),
        "C07" => Some(c07::opts()),
        "C08" => Some(c08::opts()),
        _ => None,
    }
}

/// re-execute a saved case in strict mode (known findings are not tolerated): exit 1 if it fails
pub fn replay(prop: &str, file: &str) -> i32 {
    let text = match std::fs::read_to_string(file) {
        Ok(t) => t,
        Err(e) => {
            eprintln!("cannot read {file}: {e}");
            return 2;
        }
    };
    let v: Value = match serde_json::from_str(&text) {
        Ok(v) => v,
        Err(e) => {
            eprintln!("invalid replay file: {e}");
            return 2;
        }
    };
    let _part = v["part"].as_str().unwrap_or("").to_owned();
    let case = v["case"].clone();
    let strict = KnownFindings::default();
    fn parse<T: serde::de::DeserializeOwned>(case: &Value, what: &str) -> Result<T, Failure> {
        serde_json::from_value::<T>(case.clone()).map_err(|e| Failure::new("replay.parse", what, e.to_string()))
    }
    // parts added to a property with their own case types
    let by_part: Option<Result<(), Failure>> = match (prop, _part.as_str()) {
        ("C03", "wire") => Some(parse::<c03w::SubCase>(&case, "a C03 wire case").and_then(|c| c03w::check_case(&c).map(|_| ()))),
        ("C06", "wire") | ("C07", "wire") => Some(parse::<c07w::WireCase>(&case, "a wire session case").and_then(|c| c07w::check_case(&c).map(|_| ()))),
        ("C13", "lock-contention") => Some(parse::<c13l::LockCase>(&case, "a C13 lock contention case").and_then(|c| c13l::check_case(&c).map(|_| ()))),
        ("C19", "rounds") => Some(parse::<c19r::RoundsCase>(&case, "a C19 rounds case").and_then(|c| c19r::check_case(&c).map(|_| ()))),
        ("C10", "process") => Some(parse::<c18::Case>(&case, "a C10 process case").and_then(|c| c18::check_case_on(&c, &strict, c18::JSON_1S).map(|_| ()))),
        ("C02", "threaded") | ("C02", "client_update") => None,
        _ => None,
    };
    let res: Result<(), Failure> = if let Some(r) = by_part {
        r
    } else if let Some(o) = hist_opts(prop) {
        replay_history(&case, &o, &strict, prop)
    } else {
        match prop {
            "C02" => serde_json::from_value::<c02::Case>(case.clone())
                .map_err(|e| Failure::new("replay.parse", "a C02 case", e.to_string()))
                .and_then(|c| c02::check_case(&c).map(|_| ())),
            "C09" => serde_json::from_value::<c09::Case>(case.clone())
                .map_err(|e| Failure::new("replay.parse", "a C09 case", e.to_string()))
                .and_then(|c| c09::check_case(&c, &strict).map(|_| ())),
            "C10" => serde_json::from_value::<c10::Case>(case.clone())
                .map_err(|e| Failure::new("replay.parse", "a C10 case", e.to_string()))
                .and_then(|c| c10::check_case(&c, &strict).map(|_| ())),
            "C11" => serde_json::from_value::<c11::Case>(case.clone())
                .map_err(|e| Failure::new("replay.parse", "a C11 case", e.to_string()))
                .and_then(|c| c11::check_case(&c, &strict).map(|_| ())),
            "C12" => serde_json::from_value::<c12::Case>(case.clone())
                .map_err(|e| Failure::new("replay.parse", "a C12 case", e.to_string()))
                .and_then(|c| c12::check_case(&c, &strict).map(|_| ())),
            "C13" if _part == "backpressure" => serde_json::from_value::<c13::Backpressure>(case.clone())
                .map_err(|e| Failure::new("replay.parse", "a C13 backpressure case", e.to_string()))
                .and_then(|c| c13::check_backpressure(&c).map(|_| ())),
            "C13" => serde_json::from_value::<c13::Case>(case.clone())
                .map_err(|e| Failure::new("replay.parse", "a C13 case", e.to_string()))
                .and_then(|c| c13::check_case(&c, &strict).map(|_| ())),
            "C15" => {
                if _part == "containment" {
                    serde_json::from_value::<c15::Containment>(case.clone())
                        .map_err(|e| Failure::new("replay.parse", "a C15 containment pair", e.to_string()))
                        .and_then(|c| c15::check_containment(&c).map(|_| ()))
                } else {
                    serde_json::from_value::<c15::SessionCase>(case.clone())
                        .map_err(|e| Failure::new("replay.parse", "a C15 session case", e.to_string()))
                        .and_then(|c| c15::check_session(&c, &strict).map(|_| ()))
                }
            }
            "C16" => {
                if _part == "delay" {
                    serde_json::from_value::<c16::DelayCase>(case.clone())
                        .map_err(|e| Failure::new("replay.parse", "a C16 delay case", e.to_string()))
                        .and_then(|c| c16::check_delay(&c).map(|_| ()))
                } else {
                    serde_json::from_value::<c16::ContentCase>(case.clone())
                        .map_err(|e| Failure::new("replay.parse", "a C16 content case", e.to_string()))
                        .and_then(|c| c16::check_content_case(&c, &strict).map(|_| ()))
                }
            }
            "C20" => match _part.as_str() {
                "buffer" => serde_json::from_value::<c20::BufCase>(case.clone())
                    .map_err(|e| Failure::new("replay.parse", "a C20 buffer case", e.to_string()))
                    .and_then(|c| c20::check_buffer(&c).map(|_| ())),
                "pairing" => serde_json::from_value::<c20::Pairing>(case.clone())
                    .map_err(|e| Failure::new("replay.parse", "a C20 pairing case", e.to_string()))
                    .and_then(|c| c20::check_pairing(&c).map(|_| ())),
                _ => serde_json::from_value::<c20::ApiCase>(case.clone())
                    .map_err(|e| Failure::new("replay.parse", "a C20 api case", e.to_string()))
                    .and_then(|c| c20::check_api(&c, &strict).map(|_| ())),
            },
            "C18" => serde_json::from_value::<c18::Case>(case.clone())
                .map_err(|e| Failure::new("replay.parse", "a C18 case", e.to_string()))
                .and_then(|c| c18::check_case(&c, &strict).map(|_| ())),
            "C19" => serde_json::from_value::<c19::Case>(case.clone())
                .map_err(|e| Failure::new("replay.parse", "a C19 case", e.to_string()))
                .and_then(|c| c19::check_case(&c, &strict).map(|_| ())),
            "C17" => serde_json::from_value::<c17::Case>(case.clone())
                .map_err(|e| Failure::new("replay.parse", "a C17 case", e.to_string()))
                .and_then(|c| c17::check_case(&c, &strict).map(|_| ())),
            "C14" => serde_json::from_value::<c14::Msg>(case.clone())
                .map_err(|e| Failure::new("replay.parse", "a C14 message", e.to_string()))
                .and_then(|c| c14::check_msg(&c).map(|_| ())),
            "C04" => serde_json::from_value::<c04::Pair>(case.clone())
                .map_err(|e| Failure::new("replay.parse", "a pair", e.to_string()))
                .and_then(|p| c04::run_pair(&p, &strict).map(|_| ())),
            other => {
                eprintln!("unknown property {other}");
                return 2;
            }
        }
    };
    match res {
        Ok(()) => {
            println!("replay of {file}: passed");
            0
        }
        Err(f) => {
            println!("replay of {file}: FAILED at step {:?}: {} expected {} actual {}", f.step, f.obs, f.expected, f.actual);
            println!("VIOLATION property={prop} replay={file}");
            1
        }
    }
}

pub fn replay_history(case: &Value, opts: &Opts, kfs: &KnownFindings, prop: &str) -> Result<(), Failure> {
    let h: crate::ops::History = serde_json::from_value(case.clone()).map_err(|e| Failure::new("replay.parse", "a history", e.to_string()))?;
    hist::run_one(&h, opts, kfs, prop).map(|_| ())
}
