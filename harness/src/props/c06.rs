//! C06 A key lock has one holder, is handed over first-come and dies with its session.

use super::hist::*;
use crate::evidence::Check;
use crate::interp::{HistStats, Opts};
use crate::ops::*;
use crate::util::RunCfg;

fn classify(s: &HistStats) -> (bool, Vec<&'static str>) {
    let mut classes = vec![];
    if s.handovers > 0 {
        classes.push("handover_to_waiting_client");
    }
    if s.lock_rejections > 0 {
        classes.push("rejected_lock_or_release");
    }
    if s.lock_cancels > 0 {
        classes.push("waiting_request_cancelled_by_session_end");
    }
    if s.disconnects > 0 {
        classes.push("has_disconnect");
    }
    (s.handovers > 0 && s.lock_rejections > 0, classes)
}

pub fn opts() -> Opts {
    Opts {
        readback: false,
        events: false,
        ls: false,
        locks: true,
        sys: false,
        fold: false,
        observer: false,
        readback_every: 1,
    }
}

pub fn weights() -> Weights {
    Weights {
        connect: 3,
        disconnect: 5,
        set: 1,
        iset: 0,
        cset: 0,
        delete: 1,
        pdelete: 0,
        import: 0,
        publish: 0,
        spub: 0,
        reads: 0,
        subscribe: 0,
        psubscribe: 0,
        unsubscribe: 0,
        subscribe_ls: 0,
        unsubscribe_ls: 0,
        lock: 12,
        acquire: 14,
        release: 14,
        registrations: 0,
        bad_patterns: 0,
        sys_targets: 0,
        reset: 0,
    }
}

pub fn exhaustive_alphabet() -> Vec<Op> {
    let mut a = vec![];
    for c in 0..3u8 {
        a.push(Op::Lock { c, key: "a".into() });
        a.push(Op::Acquire { c, key: "a".into() });
        a.push(Op::Release { c, key: "a".into() });
        a.push(Op::Disconnect(c));
    }
    a
}

pub fn run(cfg: &RunCfg) -> i32 {
    let mut check = Check::new(cfg, "exploration");
    check.assume("direct core engine: the harness owns the schedule at request granularity; acquire-lock confirmations are observed by polling the returned one-shot receivers after every request");
    check.assume("a release-lock by a client that is currently *waiting* for that key is not generated (the statement does not say what it does)");
    let max_len = cfg.tier.pick(5, 6);
    let seqs = all_sequences(&exhaustive_alphabet(), max_len);
    let cases: Vec<History> = seqs.into_iter().map(|ops| History { preconnected: 3, ops }).collect();
    enumerated_part(
        &mut check,
        cfg,
        "exhaustive",
        &format!("every sequence of length 1..={max_len} over lock/acquire/release/disconnect by 3 clients on one key; oracle: answer of every lock/release, state (pending/granted/cancelled) of every outstanding acquire after every request, at most one client told it holds the key and that client equals the model's holder; non-trivial = a hand-over to a waiting client and a rejected lock/release; distinct = sequence"),
        cases,
        opts(),
        classify,
    );
    let n = cfg.cases(100_000, 3_000_000);
    let max_ops = cfg.tier.pick(40, 150);
    random_part(
        &mut check,
        cfg,
        "random",
        "seeded random histories of lock/acquire/release/connect/disconnect by up to 4 clients over the keys a, a/b, b (nested and repeated requests by the same client); same oracle",
        weights(),
        4,
        max_ops,
        n,
        opts(),
        classify,
    );
    if !check.has_violation() {
        check.assume("wire part: a release by a client that is only waiting (the server cancels its wait) is not generated, as in the core parts; a harness-side answer timeout is inconclusive");
        super::c07w::lock_part(&mut check, cfg);
    }
    check.finish()
}
