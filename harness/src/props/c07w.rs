//! C07 over the wire: sessions on the TCP and the unix-socket endpoint of the in-process server
//! end for every reason the transports know (socket closed, half closed, reset, undecodable line,
//! invalid UTF-8, unsupported protocol version, refused authorization request); a standing observer
//! session compares the store, the `$SYS/clients` subtree, the events of a `#` subscription and the
//! lock hand-overs with the reference model's session-end procedure.

use crate::evidence::Check;
use crate::model::*;
use crate::util::{CaseReport, Failure, RunCfg, block_on, map_idx, run_prop};
use crate::wire::{Recv, Session, WireServer, kind_and_tid};
use proptest::prelude::*;
use serde::{Deserialize, Serialize};
use serde_json::{Value, json};
use std::collections::BTreeMap;
use std::time::Duration;

#[derive(Clone, Copy, Debug, PartialEq, Serialize, Deserialize)]
pub enum Transport {
    Unix,
    Tcp,
}

#[derive(Clone, Copy, Debug, PartialEq, Eq, PartialOrd, Ord, Serialize, Deserialize)]
pub enum EndReason {
    /// the client drops its socket
    Close,
    /// the client shuts down its sending direction and keeps reading
    HalfClose,
    /// abortive close (RST on TCP)
    Reset,
    /// a line that is not JSON
    BadJson,
    /// a JSON object that is no client message
    UnknownMessage,
    /// the JSON value null
    NullLine,
    /// a line that is not UTF-8
    InvalidUtf8,
    /// protocolSwitchRequest for a version the server does not speak
    UnsupportedProtocolVersion,
    /// authorizationRequest on a server without authorization
    RefusedAuthorization,
}

#[derive(Clone, Debug, Serialize, Deserialize)]
pub enum WOp {
    Set { c: u8, key: u16, value: u8 },
    CSet { c: u8, key: u16, value: u8 },
    Delete { c: u8, key: u16 },
    GraveGoods { c: u8, patterns: Vec<u16> },
    LastWill { c: u8, kvs: Vec<(u16, u8)> },
    Lock { c: u8, key: u8 },
    Acquire { c: u8, key: u8 },
    Release { c: u8, key: u8 },
    End { c: u8, reason: EndReason },
}

#[derive(Clone, Debug, Serialize, Deserialize)]
pub struct WireCase {
    pub transports: Vec<Transport>,
    pub ops: Vec<WOp>,
    /// how the sessions that are still open at the end of `ops` end, in client order
    pub tail: Vec<EndReason>,
}

const KEYS: [&str; 7] = ["t/a", "t/b", "t/a/x", "u/k", "u/k/deep/er", "w", "v/new"];
const LOCK_KEYS: [&str; 2] = ["lk/one", "lk/two"];
const OBSERVER: Cid = 999;
const MARKER: &str = "verif/marker";

fn cid(c: usize) -> Cid {
    100 + c as Cid
}

fn value(v: u8) -> Value {
    match v % 6 {
        0 => json!(v),
        1 => json!(format!("s{v}")),
        2 => json!({"n": v}),
        3 => json!([v, "x"]),
        4 => Value::Null,
        _ => json!(true),
    }
}

/// grave good patterns; `other` is the model name of another client. No pattern is `K/#` for a key K
/// of the pool (known finding D3 is kept out of this part by construction).
fn pattern(i: u16, other: &str) -> String {
    let pool: [String; 15] = [
        "t/#".into(),
        "t/?".into(),
        "t/a".into(),
        "u/#".into(),
        "?/k".into(),
        "#".into(),
        "w".into(),
        "t/?/x".into(),
        "$SYS/#".into(),
        "$SYS/version".into(),
        "$SYS/clients/#".into(),
        format!("$SYS/clients/{other}/graveGoods"),
        format!("$SYS/clients/{other}/#"),
        "v/new".into(),
        "nothing/here".into(),
    ];
    pool[map_idx(i, pool.len())].clone()
}

fn lw_key(i: u16, other: &str) -> String {
    let pool: [String; 10] = [
        KEYS[0].into(),
        KEYS[1].into(),
        KEYS[2].into(),
        KEYS[3].into(),
        KEYS[5].into(),
        KEYS[6].into(),
        "lw/only".into(),
        "$SYS/version".into(),
        format!("$SYS/clients/{other}/clientName"),
        format!("$SYS/clients/{other}/lastWill"),
    ];
    pool[map_idx(i, pool.len())].clone()
}

struct Cl {
    s: Option<Session>,
    cid: Cid,
    sid: String,
    tid: u64,
    inbox: Vec<Value>,
    /// lock key -> transaction ids of acquireLock requests that are waiting
    pending: BTreeMap<String, Vec<u64>>,
}

fn timeout(what: &str) -> Failure {
    Failure::new("c07w.timeout", format!("{what} within 20 s"), "nothing").sig(json!({"obs": "timeout"}))
}

impl Cl {
    async fn open(sock: &std::path::PathBuf, port: u16, t: Transport, c: Cid) -> Result<Cl, Failure> {
        let s = match t {
            Transport::Unix => Session::connect(sock).await,
            Transport::Tcp => Session::connect_tcp(port, true).await,
        }
        .map_err(|e| Failure::new("c07w.connect", "the server accepts the connection", e).sig(json!({"obs": "timeout"})))?;
        let sid = s.client_id();
        let mut cl = Cl { s: Some(s), cid: c, sid, tid: 0, inbox: vec![], pending: BTreeMap::new() };
        // lock requests need protocol version 1
        let sess = cl.s.as_mut().expect("open");
        sess.send_json(&json!({"protocolSwitchRequest": {"version": 1}})).await;
        cl.response(0).await?;
        Ok(cl)
    }

    /// the answer (ack / state / err / ...) to transaction `tid`; everything else goes to the inbox
    async fn response(&mut self, tid: u64) -> Result<Value, Failure> {
        if let Some(pos) = self.inbox.iter().position(|m| is_answer(m, tid)) {
            return Ok(self.inbox.remove(pos));
        }
        let sess = self.s.as_mut().ok_or_else(|| Failure::new("c07w.harness", "open session", "closed"))?;
        let deadline = tokio::time::Instant::now() + Duration::from_secs(20);
        loop {
            let left = deadline.saturating_duration_since(tokio::time::Instant::now());
            if left.is_zero() {
                return Err(timeout(&format!("answer to transaction {tid}")));
            }
            match sess.recv(left).await {
                Recv::Msg(m) => {
                    if std::env::var("VERIF_DEBUG").is_ok() {
                        eprintln!("c07w: client {} waiting for {tid} got {m}", self.cid);
                    }
                    if is_answer(&m, tid) {
                        return Ok(m);
                    }
                    self.inbox.push(m);
                }
                Recv::Garbage(l) => return Err(Failure::new("c07w.garbage", "JSON lines", l)),
                Recv::Closed => return Err(Failure::new("c07w.closed", format!("an answer to transaction {tid}"), "the server closed the session")),
                Recv::Timeout => return Err(timeout(&format!("answer to transaction {tid}"))),
            }
        }
    }

    async fn send(&mut self, kind: &str, mut body: Value, names: &Names) -> Result<u64, Failure> {
        self.tid += 1;
        let tid = self.tid;
        body["transactionId"] = json!(tid);
        let line = names.to_server(&json!({ kind: body }).to_string());
        let sess = self.s.as_mut().ok_or_else(|| Failure::new("c07w.harness", "open session", "closed"))?;
        if !sess.send_line(&line).await {
            return Err(Failure::new("c07w.send", "the request can be written", "write failed"));
        }
        Ok(tid)
    }

    async fn request(&mut self, kind: &str, body: Value, names: &Names) -> Result<Value, Failure> {
        let tid = self.send(kind, body, names).await?;
        let m = self.response(tid).await?;
        Ok(serde_json::from_str(&names.to_model(&m.to_string())).unwrap_or(m))
    }
}

/// answers carry the transaction id of their request; the observer's only subscription uses
/// transaction id 1, which is never waited for once the subscription is acknowledged
fn is_answer(m: &Value, tid: u64) -> bool {
    match kind_and_tid(m) {
        Some((k, t)) => t == tid && matches!(k.as_str(), "ack" | "err" | "state" | "cState" | "lsState" | "pState"),
        None => false,
    }
}

/// translation between the model's client names and the ids the server handed out
#[derive(Default)]
struct Names {
    pairs: Vec<(String, String)>,
}

impl Names {
    fn add(&mut self, model: Cid, server: &str) {
        self.pairs.push((client_name(model), server.to_owned()));
    }
    fn to_server(&self, s: &str) -> String {
        let mut s = s.to_owned();
        for (m, v) in &self.pairs {
            s = s.replace(m, v);
        }
        s
    }
    fn to_model(&self, s: &str) -> String {
        let mut s = s.to_owned();
        for (m, v) in &self.pairs {
            s = s.replace(v, m);
        }
        s
    }
}

fn ok_kind(m: &Value) -> String {
    kind_and_tid(m).map(|x| x.0).unwrap_or_default()
}

struct Run {
    world: World,
    names: Names,
    obs: Cl,
    clients: Vec<Option<Cl>>,
    /// expected events of the observer's subscription since the last checkpoint
    expected: Vec<ExpEvent>,
    marker: u64,
    step: usize,
    rep: CaseReport,
    reasons: Vec<EndReason>,
    ended_with_registrations: u64,
    ended_holding_or_waiting: u64,
    checkpoints: u64,
}

impl Run {
    fn fail(&self, obs: &str, expected: impl std::fmt::Debug, actual: impl std::fmt::Debug) -> Failure {
        Failure::new(obs, format!("{expected:?}"), format!("{actual:?}")).at(self.step).sig(json!({"obs": obs}))
    }

    fn absorb(&mut self, fx: &Effects) {
        for e in &fx.events {
            if e.client == OBSERVER {
                self.expected.push(e.clone());
            }
        }
    }

    /// lock hand-overs the model predicts: the waiting acquireLock requests are acknowledged
    async fn lock_grants(&mut self, fx: &Effects) -> Result<(), Failure> {
        for ev in &fx.lock_events {
            match ev {
                LockEvent::Granted { client, key, n } => {
                    let idx = (*client - 100) as usize;
                    let step = self.step;
                    let Some(cl) = self.clients.get_mut(idx).and_then(|c| c.as_mut()) else {
                        return Err(Failure::new("c07w.harness", "a connected waiter", format!("{client}")).at(step));
                    };
                    let tids = cl.pending.remove(key).unwrap_or_default();
                    if tids.len() != *n {
                        return Err(Failure::new("c07w.harness", format!("{n} waiting requests"), format!("{}", tids.len())).at(step));
                    }
                    for tid in tids {
                        let m = match cl.response(tid).await {
                            Ok(m) => m,
                            Err(f) if f.obs == "c07w.timeout" => {
                                return Err(Failure::new("c07w.lock_not_handed_over", format!("client {idx} gets the lock {key} it waits for (ack for transaction {tid})"), "no answer within 20 s")
                                    .at(step)
                                    .sig(json!({"obs": "c07w.lock_not_handed_over"})));
                            }
                            Err(f) => return Err(f),
                        };
                        if ok_kind(&m) != "ack" {
                            return Err(Failure::new("c07w.lock_grant", "ack", m.to_string()).at(step).sig(json!({"obs": "c07w.lock_grant"})));
                        }
                    }
                    self.rep.counters.push(("lock_handovers_checked", 1));
                }
                LockEvent::Cancelled { .. } => {}
            }
        }
        Ok(())
    }

    async fn client_op(&mut self, op: &WOp) -> Result<(), Failure> {
        let n = self.clients.len();
        let (c, _) = op_client(op);
        let c = c as usize % n;
        if self.clients[c].is_none() {
            self.rep.excluded.push(("request_of_an_ended_session", 1));
            return Ok(());
        }
        let me = cid(c);
        let other = client_name(cid((c + 1) % n));
        let mut fx = Effects::default();
        // (kind, body, expected answer kind)
        let (kind, body, expect): (&str, Value, &str) = match op {
            WOp::Set { key, value: v, .. } => {
                let k = KEYS[map_idx(*key, KEYS.len())];
                let ok = self.world.set_verdict(k, false) == SetVerdict::Ok;
                if ok {
                    self.world.apply_set(k, value(*v), me, &mut fx);
                }
                ("set", json!({"key": k, "value": value(*v)}), if ok { "ack" } else { "err" })
            }
            WOp::CSet { key, value: v, .. } => {
                let k = KEYS[map_idx(*key, KEYS.len())];
                let ver = self.world.get(k).map(|e| e.version()).unwrap_or(0);
                self.world.apply_cset(k, value(*v), ver, me, &mut fx);
                ("cSet", json!({"key": k, "value": value(*v), "version": ver}), "ack")
            }
            WOp::Delete { key, .. } => {
                let k = KEYS[map_idx(*key, KEYS.len())];
                let existed = self.world.apply_delete(k, me, &mut fx).is_some();
                ("delete", json!({"key": k}), if existed { "state" } else { "err" })
            }
            WOp::GraveGoods { patterns, .. } => {
                let ps: Vec<String> = patterns.iter().map(|p| pattern(*p, &other)).collect();
                let k = format!("$SYS/clients/{}/graveGoods", client_name(me));
                self.world.apply_set(&k, json!(ps), me, &mut fx);
                ("set", json!({"key": k, "value": ps}), "ack")
            }
            WOp::LastWill { kvs, .. } => {
                let v: Vec<Value> = kvs.iter().map(|(k, v)| json!({"key": lw_key(*k, &other), "value": value(*v)})).collect();
                let k = format!("$SYS/clients/{}/lastWill", client_name(me));
                self.world.apply_set(&k, json!(v), me, &mut fx);
                ("set", json!({"key": k, "value": v}), "ack")
            }
            WOp::Lock { key, .. } => {
                let k = LOCK_KEYS[*key as usize % 2];
                let ok = self.world.apply_lock(k, me);
                ("lock", json!({"key": k}), if ok { "ack" } else { "err" })
            }
            WOp::Acquire { key, .. } => {
                let k = LOCK_KEYS[*key as usize % 2];
                let now = self.world.apply_acquire(k, me);
                ("acquireLock", json!({"key": k}), if now { "ack" } else { "pending" })
            }
            WOp::Release { key, .. } => {
                let k = LOCK_KEYS[*key as usize % 2];
                if self.world.is_waiting(k, me) {
                    // the statements do not say what a release by a *waiting* client does (the server
                    // cancels its wait); not generated, as in C06
                    self.rep.excluded.push(("release_by_waiting_client", 1));
                    return Ok(());
                }
                let ok = self.world.apply_release(k, me, &mut fx).is_ok();
                ("releaseLock", json!({"key": k}), if ok { "ack" } else { "err" })
            }
            WOp::End { .. } => unreachable!(),
        };
        let lock_key = body.get("key").and_then(|k| k.as_str()).unwrap_or("").to_owned();
        let cl = self.clients[c].as_mut().expect("open");
        if expect == "pending" {
            let tid = cl.send(kind, body, &self.names).await?;
            cl.pending.entry(lock_key).or_default().push(tid);
            // requests of different sessions are not ordered among each other: before the next request
            // (possibly of another session) is sent, this one must have been processed - the answer to a
            // later request of the same session proves it
            cl.request("get", json!({"key": "c07w/ping"}), &self.names).await?;
        } else {
            let m = cl.request(kind, body, &self.names).await?;
            if ok_kind(&m) != expect {
                return Err(self.fail("c07w.answer", format!("{kind} answered with {expect}"), m));
            }
        }
        self.absorb(&fx);
        self.lock_grants(&fx).await
    }

    async fn end(&mut self, c: usize, reason: EndReason) -> Result<(), Failure> {
        let Some(mut cl) = self.clients[c].take() else {
            self.rep.excluded.push(("end_of_an_ended_session", 1));
            return Ok(());
        };
        let me = cl.cid;
        if self.world.registered_grave_goods(me).map(|g| !g.is_empty()).unwrap_or(false) || self.world.registered_last_will(me).map(|g| !g.is_empty()).unwrap_or(false) {
            self.ended_with_registrations += 1;
        }
        if self.world.locks.values().any(|l| l.holder == me || l.queue.iter().any(|(w, _)| *w == me)) {
            self.ended_holding_or_waiting += 1;
        }
        // one more round trip, then nothing unrequested may have arrived on this session: a waiting
        // acquireLock is not answered before the model hands the lock over, and no answer comes twice
        cl.request("get", json!({"key": "c07w/ping"}), &self.names).await?;
        if !cl.inbox.is_empty() {
            return Err(Failure::new(
                "c07w.unrequested_message",
                format!("client {c}: only the answers the model predicts (still waiting: {:?})", cl.pending),
                format!("{:?}", cl.inbox.iter().map(|m| m.to_string()).collect::<Vec<_>>()),
            )
            .at(self.step)
            .sig(json!({"obs": "c07w.unrequested_message"})));
        }
        let mut sess = cl.s.take().expect("open");
        let trigger: Option<Vec<u8>> = match reason {
            EndReason::Close | EndReason::HalfClose | EndReason::Reset => None,
            EndReason::BadJson => Some(b"this is not json\n".to_vec()),
            EndReason::UnknownMessage => Some(b"{\"frobnicate\":{\"transactionId\":1}}\n".to_vec()),
            EndReason::NullLine => Some(b"null\n".to_vec()),
            EndReason::InvalidUtf8 => Some(vec![b'{', 0xff, 0xfe, b'}', b'\n']),
            EndReason::UnsupportedProtocolVersion => Some(b"{\"protocolSwitchRequest\":{\"version\":99}}\n".to_vec()),
            EndReason::RefusedAuthorization => Some(b"{\"authorizationRequest\":{\"authToken\":\"no.such.token\"}}\n".to_vec()),
        };
        match (reason, trigger) {
            (EndReason::Close, _) => drop(sess),
            (EndReason::Reset, _) => sess.reset(),
            (EndReason::HalfClose, _) => {
                sess.shutdown_write().await;
                if !wait_closed(&mut sess).await {
                    self.rep.counters.push(("server_left_the_session_open_for_3s", 1));
                }
                drop(sess);
            }
            (_, Some(bytes)) => {
                sess.send_raw(&bytes).await;
                // whether the server ends the session for this line is not pinned here; if it does
                // not, the client ends it
                if !wait_closed(&mut sess).await {
                    self.rep.counters.push(("server_left_the_session_open_for_3s", 1));
                }
                drop(sess);
            }
            (_, None) => drop(sess),
        }
        let mut fx = Effects::default();
        self.world.apply_disconnect(me, &mut fx);
        self.absorb(&fx);
        self.reasons.push(reason);
        // the end of the session has been processed when the client's own $SYS entries are gone
        let own = format!("$SYS/clients/{}/#", cl.sid);
        let deadline = tokio::time::Instant::now() + Duration::from_secs(10);
        let mut polls = 0u64;
        loop {
            let m = self.obs.request("pGet", json!({"requestPattern": own}), &Names::default()).await?;
            polls += 1;
            let empty = match ok_kind(&m).as_str() {
                "pState" => m["pState"]["keyValuePairs"].as_array().map(|a| a.is_empty()).unwrap_or(false),
                "err" => true,
                _ => false,
            };
            if empty {
                break;
            }
            if tokio::time::Instant::now() > deadline {
                return Err(Failure::new(
                    "c07w.session_end_not_processed",
                    format!("the $SYS entries of client {c} are removed after its session ended ({reason:?})"),
                    format!("still there after 10 s and {polls} answered polls: {}", m),
                )
                .at(self.step)
                .sig(json!({"obs": "c07w.session_end_not_processed"})));
            }
            tokio::time::sleep(Duration::from_millis(2)).await;
        }
        self.lock_grants(&fx).await?;
        self.checkpoint().await
    }

    /// events of the observer's subscription up to a fresh marker, then the whole visible state
    async fn checkpoint(&mut self) -> Result<(), Failure> {
        self.checkpoints += 1;
        self.marker += 1;
        let mut fx = Effects::default();
        self.world.apply_set(MARKER, json!(self.marker), OBSERVER, &mut fx);
        self.absorb(&fx);
        let m = self.obs.request("set", json!({"key": MARKER, "value": self.marker}), &self.names).await?;
        if ok_kind(&m) != "ack" {
            return Err(self.fail("c07w.marker", "ack", m));
        }
        // collect events until the marker event arrives
        let mut actual: Vec<(String, Value, bool)> = vec![];
        let mut done = false;
        let mut take = |m: &Value, actual: &mut Vec<(String, Value, bool)>, done: &mut bool, marker: u64| {
            let Some(p) = m.get("pState") else { return };
            if p.get("transactionId").and_then(|t| t.as_u64()) != Some(1) {
                return;
            }
            let (list, deleted) = match (p.get("keyValuePairs"), p.get("deleted")) {
                (Some(l), _) => (l, false),
                (_, Some(l)) => (l, true),
                _ => return,
            };
            for kv in list.as_array().cloned().unwrap_or_default() {
                let k = kv["key"].as_str().unwrap_or("").to_owned();
                let v = kv["value"].clone();
                if k == MARKER && !deleted && v == json!(marker) {
                    *done = true;
                }
                actual.push((k, v, deleted));
            }
        };
        let inbox: Vec<Value> = std::mem::take(&mut self.obs.inbox);
        for m in &inbox {
            let m: Value = serde_json::from_str(&self.names.to_model(&m.to_string())).unwrap_or(m.clone());
            take(&m, &mut actual, &mut done, self.marker);
        }
        let deadline = tokio::time::Instant::now() + Duration::from_secs(20);
        while !done {
            let left = deadline.saturating_duration_since(tokio::time::Instant::now());
            let sess = self.obs.s.as_mut().expect("observer");
            match sess.recv(left).await {
                Recv::Msg(m) => {
                    let m: Value = serde_json::from_str(&self.names.to_model(&m.to_string())).unwrap_or(m);
                    take(&m, &mut actual, &mut done, self.marker);
                }
                Recv::Timeout => return Err(timeout("the marker event")),
                Recv::Closed => return Err(self.fail("c07w.observer_closed", "the observer's session stays open", "closed")),
                Recv::Garbage(l) => return Err(self.fail("c07w.garbage", "JSON lines", l)),
            }
        }
        // per key: the delivered sequence equals the predicted one (addresses are not modelled)
        let expected = std::mem::take(&mut self.expected);
        let mut keys: Vec<String> = expected.iter().map(|e| e.key.clone()).chain(actual.iter().map(|a| a.0.clone())).collect();
        keys.sort();
        keys.dedup();
        for key in keys {
            if !modelled(&key) {
                continue;
            }
            let e: Vec<&ExpEvent> = expected.iter().filter(|e| e.key == key).collect();
            let a: Vec<&(String, Value, bool)> = actual.iter().filter(|a| a.0 == key).collect();
            let mut ai = 0;
            let mut ok = true;
            for ev in &e {
                if ai < a.len() && a[ai].1 == ev.value && a[ai].2 == ev.deleted {
                    ai += 1;
                } else if !ev.optional {
                    ok = false;
                    break;
                }
            }
            if !ok || ai != a.len() {
                return Err(Failure::new(
                    "c07w.events",
                    format!("observer subscription #, key {key:?}: {:?}", e.iter().map(|x| (&x.value, x.deleted, x.optional)).collect::<Vec<_>>()),
                    format!("{:?}", a.iter().map(|x| (&x.1, x.2)).collect::<Vec<_>>()),
                )
                .at(self.step)
                .sig(json!({"obs": "c07w.events"})));
            }
            self.rep.counters.push(("events_checked", a.len() as u64));
        }
        // state: user keys, versions, the clients subtree, the client count
        let m = self.obs.request("pGet", json!({"requestPattern": "#"}), &self.names).await?;
        let mut got: Vec<(String, Value)> = kvps(&m).into_iter().filter(|(k, _)| !k.starts_with("$SYS")).collect();
        got.sort_by(|a, b| a.0.cmp(&b.0));
        let mut want: Vec<(String, Value)> = self.world.pget(&parse_pattern("#")).into_iter().filter(|(k, _)| !k.starts_with("$SYS")).collect();
        want.sort_by(|a, b| a.0.cmp(&b.0));
        if got != want {
            return Err(self.fail("c07w.state", want, got));
        }
        for k in KEYS.iter().chain(["lw/only"].iter()) {
            let m = self.obs.request("cGet", json!({"key": k}), &self.names).await?;
            let got = m.get("cState").map(|c| (c["value"].clone(), c["version"].as_u64().unwrap_or(u64::MAX)));
            let want = self.world.get(k).map(|e| (e.value.clone(), e.version()));
            if got != want {
                return Err(self.fail("c07w.version", (k, want), got));
            }
        }
        let m = self.obs.request("pGet", json!({"requestPattern": "$SYS/#"}), &self.names).await?;
        let norm = |mut v: Vec<(String, Value)>| {
            v.retain(|(k, _)| modelled(k));
            v.sort_by(|a, b| a.0.cmp(&b.0));
            v
        };
        let got = norm(kvps(&m));
        let want = norm(self.world.pget(&parse_pattern("$SYS/#")));
        if got != want {
            return Err(self.fail("c07w.sys", want, got));
        }
        let m = self.obs.request("get", json!({"key": "$SYS/clients"}), &self.names).await?;
        let got = m.get("state").map(|s| s["value"].clone());
        let want = self.world.get("$SYS/clients").map(|e| e.value.clone());
        if got != want {
            return Err(self.fail("c07w.client_count", want, got));
        }
        // locks: what the model says is free can be locked by the observer, what is held cannot
        for k in LOCK_KEYS {
            let free = self.world.holder(k).is_none();
            let m = self.obs.request("lock", json!({"key": k}), &self.names).await?;
            let got_free = ok_kind(&m) == "ack";
            if got_free != free {
                return Err(Failure::new("c07w.lock_state", format!("lock {k} is {}", if free { "free" } else { "held" }), format!("{m}")).at(self.step).sig(json!({"obs": "c07w.lock_state"})));
            }
            if got_free {
                let m = self.obs.request("releaseLock", json!({"key": k}), &self.names).await?;
                if ok_kind(&m) != "ack" {
                    return Err(self.fail("c07w.lock_release", "ack", m));
                }
            }
        }
        Ok(())
    }
}

/// keys the model predicts: everything outside $SYS and the $SYS/clients subtree without the
/// peer addresses; the server's own periodically refreshed $SYS values (uptime, value count, ...)
/// and its static information keys are C08's subject and are not compared here
fn modelled(key: &str) -> bool {
    (!key.starts_with("$SYS") || key == "$SYS/clients" || key.starts_with("$SYS/clients/")) && !key.ends_with("/address")
}

fn kvps(m: &Value) -> Vec<(String, Value)> {
    m.get("pState")
        .and_then(|p| p.get("keyValuePairs"))
        .and_then(|l| l.as_array())
        .map(|l| l.iter().map(|kv| (kv["key"].as_str().unwrap_or("").to_owned(), kv["value"].clone())).collect())
        .unwrap_or_default()
}

/// true = the server closed the connection
async fn wait_closed(sess: &mut Session) -> bool {
    let deadline = tokio::time::Instant::now() + Duration::from_secs(3);
    loop {
        let left = deadline.saturating_duration_since(tokio::time::Instant::now());
        if left.is_zero() {
            return false;
        }
        match sess.recv(left).await {
            Recv::Closed => return true,
            Recv::Timeout => return false,
            _ => {}
        }
    }
}

fn op_client(op: &WOp) -> (u8, bool) {
    match op {
        WOp::Set { c, .. } | WOp::CSet { c, .. } | WOp::Delete { c, .. } | WOp::GraveGoods { c, .. } | WOp::LastWill { c, .. } | WOp::Lock { c, .. } | WOp::Acquire { c, .. } | WOp::Release { c, .. } => (*c, false),
        WOp::End { c, .. } => (*c, true),
    }
}

async fn drive(case: &WireCase, ws: &WireServer, port: u16) -> Result<CaseReport, Failure> {
    let mut world = World::new();
    let mut names = Names::default();
    let mut fx = Effects::default();
    // the observer: a unix session with one live-only pattern subscription on #
    let mut obs = Cl::open(&ws.sock, port, Transport::Unix, OBSERVER).await?;
    world.apply_connect(OBSERVER, "UNIX", &mut fx);
    names.add(OBSERVER, &obs.sid);
    obs.tid = 1;
    let sess = obs.s.as_mut().expect("open");
    sess.send_json(&json!({"pSubscribe": {"transactionId": 1, "requestPattern": "#", "unique": false, "liveOnly": true}})).await;
    let m = obs.response(1).await?;
    if ok_kind(&m) != "ack" {
        return Err(Failure::new("c07w.subscribe", "ack", m.to_string()));
    }
    world.subs.push(Sub { client: OBSERVER, tid: 1, pattern: parse_pattern("#"), is_pattern: true, unique: false, live_only: true });
    let mut fx = Effects::default();
    let mut clients = vec![];
    for (i, t) in case.transports.iter().enumerate() {
        let cl = Cl::open(&ws.sock, port, *t, cid(i)).await?;
        world.apply_connect(cid(i), if *t == Transport::Tcp { "TCP" } else { "UNIX" }, &mut fx);
        names.add(cid(i), &cl.sid);
        clients.push(Some(cl));
    }
    let mut run = Run {
        world,
        names,
        obs,
        clients,
        expected: vec![],
        marker: 0,
        step: 0,
        rep: CaseReport::default(),
        reasons: vec![],
        ended_with_registrations: 0,
        ended_holding_or_waiting: 0,
        checkpoints: 0,
    };
    run.absorb(&fx);
    run.checkpoint().await?;
    for (i, op) in case.ops.iter().enumerate() {
        run.step = i + 1;
        match op {
            WOp::End { c, reason } => {
                let c = *c as usize % run.clients.len();
                run.end(c, *reason).await?
            }
            other => run.client_op(other).await?,
        }
    }
    for c in 0..run.clients.len() {
        run.step += 1;
        let reason = case.tail.get(c).copied().unwrap_or(EndReason::Close);
        if run.clients[c].is_some() {
            run.end(c, reason).await?;
        }
    }
    let mut rep = run.rep;
    let error_path = run.reasons.iter().any(|r| matches!(r, EndReason::UnsupportedProtocolVersion | EndReason::RefusedAuthorization | EndReason::InvalidUtf8 | EndReason::Reset));
    if run.ended_with_registrations > 0 {
        rep.classes.push("session_ended_with_registrations");
    }
    if run.ended_holding_or_waiting > 0 {
        rep.classes.push("session_ended_holding_or_waiting_for_a_lock");
    }
    if error_path {
        rep.classes.push("session_ended_through_an_error_path");
    }
    if case.transports.contains(&Transport::Tcp) {
        rep.classes.push("has_tcp_session");
    }
    if case.transports.contains(&Transport::Unix) {
        rep.classes.push("has_unix_session");
    }
    for r in &run.reasons {
        rep.counters.push((
            match r {
                EndReason::Close => "end_close",
                EndReason::HalfClose => "end_half_close",
                EndReason::Reset => "end_reset",
                EndReason::BadJson => "end_bad_json",
                EndReason::UnknownMessage => "end_unknown_message",
                EndReason::NullLine => "end_null_line",
                EndReason::InvalidUtf8 => "end_invalid_utf8",
                EndReason::UnsupportedProtocolVersion => "end_unsupported_protocol_version",
                EndReason::RefusedAuthorization => "end_refused_authorization",
            },
            1,
        ));
    }
    rep.counters.push(("checkpoints", run.checkpoints));
    rep.nontrivial = run.ended_with_registrations > 0 && (run.ended_holding_or_waiting > 0 || error_path);
    Ok(rep)
}

async fn run_case(case: &WireCase) -> Result<CaseReport, Failure> {
    let panics_before = crate::util::panic_count();
    let port = crate::server::free_port();
    let ws = WireServer::start("C07", |c| {
        c.tcp_endpoint = Some(worterbuch::Endpoint { tls: false, bind_addr: [127, 0, 0, 1].into(), port });
        c.tcp_disabled = false;
    })
    .await
    .map_err(|e| Failure::new("c07w.server", "server starts", e).sig(json!({"obs": "timeout"})));
    let ws = match ws {
        Ok(ws) => ws,
        Err(_) => return Ok(CaseReport { inconclusive: true, ..Default::default() }),
    };
    // wait for the tcp endpoint
    let mut up = false;
    for _ in 0..3000 {
        if tokio::net::TcpStream::connect(("127.0.0.1", port)).await.is_ok() {
            up = true;
            break;
        }
        tokio::time::sleep(Duration::from_millis(1)).await;
    }
    if !up || ws.server.is_finished() {
        ws.stop().await.ok();
        return Ok(CaseReport { inconclusive: true, ..Default::default() });
    }
    let t0 = std::time::Instant::now();
    let res = drive(case, &ws, port).await;
    let t1 = t0.elapsed();
    let crashed = ws.server.is_finished();
    let stop = ws.stop().await;
    if std::env::var("VERIF_DEBUG").is_ok() {
        eprintln!("c07w case: drive {:?}, stop {:?}, ops {}", t1, t0.elapsed() - t1, case.ops.len());
    }
    if crate::util::panic_count() != panics_before {
        let msg = crate::util::last_panic().unwrap_or_default();
        return Err(Failure::new("c07w.panic", "no task of the server panics", &msg).sig(json!({"obs": "c07w.panic"})));
    }
    match res {
        Ok(r) => {
            if crashed || stop.is_err() {
                return Err(Failure::new("c07w.server_down", "the server keeps running and stops cleanly", format!("{stop:?}")));
            }
            Ok(r)
        }
        Err(f) if f.signature.get("obs").and_then(|o| o.as_str()) == Some("timeout") && !crashed => Ok(CaseReport { inconclusive: true, ..Default::default() }),
        Err(f) => Err(f),
    }
}

pub fn check_case(case: &WireCase) -> Result<CaseReport, Failure> {
    block_on(run_case(case))
}

fn reason() -> BoxedStrategy<EndReason> {
    prop_oneof![
        3 => Just(EndReason::Close),
        1 => Just(EndReason::HalfClose),
        2 => Just(EndReason::Reset),
        1 => Just(EndReason::BadJson),
        1 => Just(EndReason::UnknownMessage),
        1 => Just(EndReason::NullLine),
        2 => Just(EndReason::InvalidUtf8),
        3 => Just(EndReason::UnsupportedProtocolVersion),
        2 => Just(EndReason::RefusedAuthorization),
    ]
    .boxed()
}

fn wop() -> BoxedStrategy<WOp> {
    let c = || 0..4u8;
    prop_oneof![
        4 => (c(), any::<u16>(), any::<u8>()).prop_map(|(c, key, value)| WOp::Set { c, key, value }),
        2 => (c(), any::<u16>(), any::<u8>()).prop_map(|(c, key, value)| WOp::CSet { c, key, value }),
        1 => (c(), any::<u16>()).prop_map(|(c, key)| WOp::Delete { c, key }),
        4 => (c(), proptest::collection::vec(any::<u16>(), 0..4)).prop_map(|(c, patterns)| WOp::GraveGoods { c, patterns }),
        4 => (c(), proptest::collection::vec((any::<u16>(), any::<u8>()), 0..4)).prop_map(|(c, kvs)| WOp::LastWill { c, kvs }),
        2 => (c(), 0..2u8).prop_map(|(c, key)| WOp::Lock { c, key }),
        3 => (c(), 0..2u8).prop_map(|(c, key)| WOp::Acquire { c, key }),
        1 => (c(), 0..2u8).prop_map(|(c, key)| WOp::Release { c, key }),
        2 => (c(), reason()).prop_map(|(c, reason)| WOp::End { c, reason }),
    ]
    .boxed()
}

pub fn case(max_ops: usize) -> BoxedStrategy<WireCase> {
    (
        proptest::collection::vec(prop_oneof![Just(Transport::Tcp), Just(Transport::Unix)], 2..=4),
        proptest::collection::vec(wop(), 1..=max_ops),
        proptest::collection::vec(reason(), 4),
    )
        .prop_map(|(transports, ops, tail)| WireCase { transports, ops, tail })
        .boxed()
}

pub fn part(check: &mut Check, cfg: &RunCfg) {
    let n = cfg.cases(1_500, 300_000);
    let max_ops = cfg.tier.pick(24, 40);
    let (agg, v) = run_prop(cfg, "wire", n, || case(max_ops), check_case);
    check.add_part(
        "wire",
        "whole server in process with a TCP and a unix-socket endpoint; 2-4 client sessions (transport generated per session) set/cset/delete keys of a colliding pool, register and re-register grave goods (overlapping patterns, other clients' and server-set $SYS keys) and last wills (CAS-protected and $SYS targets), lock / wait for / release two locks, and end in a generated order for a generated reason (socket closed, half closed, reset, not JSON, unknown message, null, invalid UTF-8, unsupported protocol version, refused authorization request); after every session end a standing observer session compares, against the reference model's session-end procedure: the user keys and their CAS versions, the $SYS/clients subtree and client count, the per-key event sequences of its # subscription up to a marker, the acknowledgement of every waiting acquireLock the model hands the lock to, and which locks are free; non-trivial = a session ended with registrations and (while holding or waiting for a lock, or through an error path of the transport); distinct = case",
        false,
        agg,
    );
    if let Some(v) = v {
        check.violate("wire", &v.case, v.failure);
    }
}

fn lock_op() -> BoxedStrategy<WOp> {
    let c = || 0..4u8;
    prop_oneof![
        1 => (c(), any::<u16>(), any::<u8>()).prop_map(|(c, key, value)| WOp::Set { c, key, value }),
        4 => (c(), 0..2u8).prop_map(|(c, key)| WOp::Lock { c, key }),
        6 => (c(), 0..2u8).prop_map(|(c, key)| WOp::Acquire { c, key }),
        4 => (c(), 0..2u8).prop_map(|(c, key)| WOp::Release { c, key }),
        2 => (c(), reason()).prop_map(|(c, reason)| WOp::End { c, reason }),
    ]
    .boxed()
}

/// C06 over the wire: the same driver with lock traffic only (protocol/v1.rs: the waiting
/// acquireLock tasks, their acknowledgement, cancellation at session end)
pub fn lock_part(check: &mut Check, cfg: &RunCfg) {
    let n = cfg.cases(700, 300_000);
    let max_ops = cfg.tier.pick(30, 50);
    let strat = move || {
        (
            proptest::collection::vec(prop_oneof![Just(Transport::Tcp), Just(Transport::Unix)], 2..=4),
            proptest::collection::vec(lock_op(), 1..=max_ops),
            proptest::collection::vec(reason(), 4),
        )
            .prop_map(|(transports, ops, tail)| WireCase { transports, ops, tail })
            .boxed()
    };
    let (agg, v) = run_prop(cfg, "wire", n, strat, |case: &WireCase| {
        let mut rep = check_case(case)?;
        let handovers = rep.counters.iter().any(|(k, n)| *k == "lock_handovers_checked" && *n > 0);
        rep.nontrivial = handovers && rep.classes.contains(&"session_ended_holding_or_waiting_for_a_lock");
        Ok(rep)
    });
    check.add_part(
        "wire",
        "whole server in process with a TCP and a unix-socket endpoint; 2-4 socket sessions lock / acquireLock / releaseLock two keys and end for generated reasons in a generated order; oracle (lock queue of the reference model): lock and releaseLock are answered ack / err as the model's holder says, a waiting acquireLock is acknowledged when (and only when: after one more round trip nothing unrequested may be in a session's inbox) the model hands the lock to its client, hand-over follows the order of first requests, a session that ends frees what it holds and leaves the queue, and after every session end an observer can lock exactly the keys the model says are free; non-trivial = at least one hand-over to a waiting client was checked and a session ended while holding or waiting; distinct = case",
        false,
        agg,
    );
    if let Some(v) = v {
        check.violate("wire", &v.case, v.failure);
    }
}
