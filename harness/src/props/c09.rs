//! C09 What was flushed is what is loaded.

use crate::evidence::{Check, KnownFindings};
use crate::jgen;
use crate::ops;
use crate::persist::*;
use crate::util::{CaseReport, Failure, RunCfg, block_on, run_prop, scratch_dir};
use proptest::prelude::*;
use serde::{Deserialize, Serialize};
use serde_json::json;
use worterbuch::verif;

#[derive(Clone, Debug, PartialEq, Serialize, Deserialize)]
pub enum Layout {
    /// written by the real flush procedure (current schema)
    V3,
    /// `.store.{a,b}.json` + `.gglw.{a,b}.json` + `.toggle`, laid out by the harness
    V2,
    /// `.store.json` + `.store.sha` (no registrations), laid out by the harness
    V1,
    /// v1 with a damaged main pair and an intact backup pair (`.store.json~`, `.store.sha~`)
    V1Backup,
}

#[derive(Clone, Debug, PartialEq, Serialize, Deserialize)]
pub struct Case {
    pub layout: Layout,
    /// snapshots flushed one after the other; the last one is the one that must be served
    pub snapshots: Vec<Snapshot>,
    /// v2 only: is the selector file present (=> slot a is current)
    pub toggle_present: bool,
}

fn write(path: std::path::PathBuf, data: impl AsRef<[u8]>) -> Result<(), Failure> {
    std::fs::write(&path, data).map_err(|e| Failure::new("c09.fs", format!("write {}", path.display()), e.to_string()))
}

async fn run_case(case: &Case, kfs: &KnownFindings) -> Result<CaseReport, Failure> {
    thread_local! {
        static DIR: std::path::PathBuf = scratch_dir("C09").join(format!("{:?}", std::thread::current().id()).replace(['(', ')'], ""));
    }
    let base = DIR.with(|d| d.clone());
    let dir = fresh_dir(&base, "case");
    let config = persist_config(&dir);
    verif::unlock_persistence();
    let mut rep = CaseReport::default();
    let last = case.snapshots.last().expect("at least one snapshot").clone();
    if last.order_dependent() {
        rep.excluded.push(("registrations_whose_result_depends_on_application_order", 1));
        return Ok(rep);
    }
    let mut expected = last.recovered();
    match case.layout {
        Layout::V3 => {
            for (i, s) in case.snapshots.iter().enumerate() {
                let mut wb = build_core(s, &config, 5000 + 10 * i as u128).await?;
                verif::json_flush(&mut wb, &config)
                    .await
                    .map_err(|e| Failure::new("c09.flush", "Ok", e.to_string()))?;
            }
        }
        Layout::V2 => {
            // current snapshot in the selected slot, the previous one (if any) in the other slot
            let (cur, other) = if case.toggle_present { ("a", "b") } else { ("b", "a") };
            write(dir.join(format!(".store.{cur}.json")), &crate::model::render_store_json(&last.store_entries()))?;
            write(dir.join(format!(".gglw.{cur}.json")), &gglw_json(&last))?;
            if case.snapshots.len() > 1 {
                let old = &case.snapshots[case.snapshots.len() - 2];
                write(dir.join(format!(".store.{other}.json")), &crate::model::render_store_json(&old.store_entries()))?;
                write(dir.join(format!(".gglw.{other}.json")), &gglw_json(old))?;
            }
            if case.toggle_present {
                write(dir.join(".toggle"), "")?;
            }
        }
        Layout::V1 | Layout::V1Backup => {
            // schema 1 has no registrations
            let mut plain = last.clone();
            plain.clients.clear();
            expected = plain.recovered();
            let json = crate::model::render_store_json(&last.store_entries());
            if case.layout == Layout::V1 {
                write(dir.join(".store.json"), &json)?;
                write(dir.join(".store.sha"), &sha256_hex(json.as_bytes()))?;
            } else {
                write(dir.join(".store.json"), &json.as_bytes()[..json.len() / 2])?;
                write(dir.join(".store.sha"), &sha256_hex(json.as_bytes()))?;
                write(dir.join(".store.json~"), &json)?;
                write(dir.join(".store.sha~"), &sha256_hex(json.as_bytes()))?;
            }
        }
    }
    let loaded = verif::json_load(&config).await.map_err(|e| {
        Failure::new("c09.load", "the flushed files load", e.to_string()).sig(json!({"obs": "c09.load"}))
    })?;
    if let Err(f) = compare_loaded(&loaded, &expected) {
        // would an older snapshot explain what was loaded? (diagnosis only)
        let mut f = f;
        if case.snapshots.len() > 1 {
            let old = case.snapshots[case.snapshots.len() - 2].recovered();
            if compare_loaded(&loaded, &old).is_ok() {
                f = Failure::new("c09.older_snapshot_loaded", "the last flushed snapshot", "the snapshot flushed before it")
                    .sig(json!({"obs": "c09.older_snapshot_loaded", "layout": format!("{:?}", case.layout)}));
            }
        }
        match kfs.matching("C09", &f.signature) {
            Some(k) => rep.kf.push(k.id.clone()),
            None => return Err(f),
        }
    }
    let entries = last.store_entries();
    let cas_gt1 = entries.iter().any(|(_, e)| e.cas.map(|v| v > 1).unwrap_or(false));
    let nested = entries.iter().any(|(k, _)| entries.iter().any(|(k2, _)| k2.starts_with(&format!("{k}/"))));
    let regs = last.registrations_change_state();
    if cas_gt1 {
        rep.classes.push("cas_entry_with_version_gt_1");
    }
    if nested {
        rep.classes.push("key_nested_under_a_key_with_a_value");
    }
    if regs {
        rep.classes.push("registration_changes_loaded_state");
    }
    if entries.iter().any(|(_, e)| jgen::has_float(&e.value)) {
        rep.classes.push("value_with_fractional_number");
    }
    if case.snapshots.len() > 1 {
        rep.classes.push("other_slot_holds_older_snapshot");
    }
    rep.classes.push(match case.layout {
        Layout::V3 => "layout_v3",
        Layout::V2 => "layout_v2",
        Layout::V1 => "layout_v1",
        Layout::V1Backup => "layout_v1_backup",
    });
    rep.nontrivial = cas_gt1 && nested && (regs || matches!(case.layout, Layout::V1 | Layout::V1Backup));
    Ok(rep)
}

pub fn check_case(case: &Case, kfs: &KnownFindings) -> Result<CaseReport, Failure> {
    block_on(run_case(case, kfs))
}

fn entry(cas_lookalike: bool) -> BoxedStrategy<StateEntry> {
    (
        ops::key(),
        jgen::value(true, cas_lookalike),
        prop_oneof![5 => Just(None), 2 => (1..6u64).prop_map(Some), 1 => Just(Some(u64::MAX)), 1 => Just(Some(u64::MAX - 1)), 1 => any::<u64>().prop_map(|v| Some(v.max(1)))],
    )
        .prop_map(|(key, value, cas)| StateEntry { key, value, cas })
        .boxed()
}

fn registration(entries: Vec<String>, sys_targets: bool) -> BoxedStrategy<Registration> {
    let keys = entries.clone();
    let pick_key = move || -> BoxedStrategy<String> {
        if keys.is_empty() {
            ops::key()
        } else {
            let keys = keys.clone();
            prop_oneof![3 => (0..keys.len()).prop_map(move |i| keys[i].clone()), 1 => ops::key()].boxed()
        }
    };
    let gg = proptest::collection::vec(
        prop_oneof![
            3 => pick_key(),
            2 => pick_key().prop_map(|k| {
                let mut s: Vec<&str> = k.split('/').collect();
                s.pop();
                s.push("#");
                s.join("/")
            }),
            1 => pick_key().prop_map(|k| format!("{k}/#")),
            1 => ops::pattern(),
            1 => ops::bad_pattern(),
        ],
        0..=2,
    );
    let lw_key = if sys_targets {
        prop_oneof![4 => pick_key(), 1 => Just("$SYS/evil".to_owned())].boxed()
    } else {
        pick_key()
    };
    let lw = proptest::collection::vec((lw_key, jgen::value(true, false)), 0..=2);
    (proptest::option::weighted(0.7, gg), proptest::option::weighted(0.7, lw))
        .prop_map(|(grave_goods, last_will)| Registration { grave_goods, last_will })
        .boxed()
}

fn snapshot(cas_lookalike: bool, sys_targets: bool) -> BoxedStrategy<Snapshot> {
    proptest::collection::vec(entry(cas_lookalike), 0..=6)
        .prop_flat_map(move |entries| {
            let keys: Vec<String> = entries.iter().map(|e| e.key.clone()).collect();
            (Just(entries), proptest::collection::vec(registration(keys, sys_targets), 0..=3))
        })
        .prop_map(|(mut entries, clients)| {
            // keys must be storable: literal, non-empty
            entries.retain(|e| !e.key.is_empty());
            Snapshot { entries, clients }
        })
        .boxed()
}

fn case(cas_lookalike: bool, sys_targets: bool) -> BoxedStrategy<Case> {
    (
        prop_oneof![5 => Just(Layout::V3), 3 => Just(Layout::V2), 1 => Just(Layout::V1), 1 => Just(Layout::V1Backup)],
        proptest::collection::vec(snapshot(cas_lookalike, sys_targets), 1..=3),
        any::<bool>(),
    )
        .prop_map(|(layout, snapshots, toggle_present)| Case { layout, snapshots, toggle_present })
        .boxed()
}

pub fn run(cfg: &RunCfg) -> i32 {
    let mut check = Check::new(cfg, "exploration");
    check.assume("the flush is the real synchronous flush procedure (what the shutdown sequence runs) on a core holding the generated state; the load is the real loader chain v3 -> v2 -> v1; v2 and v1 directories are laid out by the harness in the file names and formats those loaders read");
    check.assume("expected state after loading: user keys with value, kind and version as flushed, then all flushed grave goods buried, then all flushed last wills set, by the server itself; registrations whose result depends on the order of clients are not generated");
    let kfs = check.kf.clone();
    let n = cfg.cases(12_000, 400_000);
    let (agg, v) = run_prop(cfg, "main", n, || case(false, false), |c: &Case| check_case(c, &kfs));
    check.add_part(
        "main",
        "1-3 snapshots (0-6 entries over the colliding key pool; nested JSON values incl. floats from raw bits, format colliders, u64 boundary CAS versions; 0-3 clients with grave goods / last wills derived from the keys) flushed one after the other in layout v3 (real flush), v2 or v1 (laid out by the harness, both selector states, other slot empty or holding the older snapshot); oracle: full read-back of the loaded core (pget #, cget of every key, ls of every prefix, entry count, nothing under $SYS) == last snapshot with its registrations applied; non-trivial = a CAS entry with version > 1, a key nested under a key with a value and (for v2/v3) a registration that changes the loaded state; distinct = case",
        false,
        agg,
    );
    if let Some(v) = v {
        check.violate("main", &v.case, v.failure);
    }
    if !check.has_violation() {
        let n = cfg.cases(3_000, 50_000);
        let (agg, v) = run_prop(cfg, "known-finding-shapes", n, || case(true, true), |c: &Case| check_case(c, &kfs));
        check.add_part(
            "known-finding-shapes",
            "same generator including the trigger shapes of the listed known findings (plain values of the shape {\"Cas\":[v,n]}, last wills aimed at $SYS); anything that is not exactly a listed finding is a violation",
            false,
            agg,
        );
        if let Some(v) = v {
            check.violate("known-finding-shapes", &v.case, v.failure);
        }
    }
    check.finish()
}
