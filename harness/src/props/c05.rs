//! C05 Child listings and ls-subscriptions show exactly the keys that exist.

use super::hist::*;
use crate::evidence::Check;
use crate::interp::{HistStats, Opts};
use crate::ops::*;
use crate::util::RunCfg;

fn classify(s: &HistStats) -> (bool, Vec<&'static str>) {
    let mut classes = vec![];
    let max_changes = s.ls_changes.values().copied().max().unwrap_or(0);
    if !s.ls_changes.is_empty() {
        classes.push("ls_subscription_changed");
    }
    if max_changes >= 2 {
        classes.push("ls_subscription_changed_twice");
    }
    if s.ls_changes_by_delete > 0 {
        classes.push("ls_change_by_delete_or_pdelete");
    }
    if s.rejected_mutations > 0 {
        classes.push("has_rejected_mutation");
    }
    if s.import_over_existing > 0 {
        classes.push("has_import_over_existing_key");
    }
    (max_changes >= 2 && s.ls_changes_by_delete > 0, classes)
}

pub fn opts() -> Opts {
    Opts {
        readback: true,
        events: false,
        ls: true,
        locks: false,
        sys: false,
        fold: false,
        observer: false,
        readback_every: 1,
    }
}

pub fn weights() -> Weights {
    Weights {
        connect: 1,
        disconnect: 1,
        set: 20,
        iset: 1,
        cset: 12,
        delete: 14,
        pdelete: 10,
        import: 4,
        publish: 0,
        spub: 0,
        reads: 8,
        subscribe: 0,
        psubscribe: 0,
        unsubscribe: 0,
        subscribe_ls: 14,
        unsubscribe_ls: 3,
        lock: 0,
        acquire: 0,
        release: 0,
        registrations: 0,
        bad_patterns: 1,
        sys_targets: 0,
        reset: 1,
    }
}

pub fn run(cfg: &RunCfg) -> i32 {
    let mut check = Check::new(cfg, "exploration");
    check.assume("direct core engine; ls lists are compared as sorted lists (a duplicate entry is a failure); an ls-subscription is checked after every request: if lists were delivered the last one equals the current child set, if the child set changed at least one list was delivered");
    let n = cfg.cases(60_000, 1_500_000);
    let max_ops = cfg.tier.pick(40, 120);
    random_part(
        &mut check,
        cfg,
        "random",
        "seeded random histories of set/cset(accepted and rejected)/delete/pdelete/import with ls-subscriptions on existing, not yet existing and root parents taken at every position, ls of every prefix ever used after every request, pls of generated parent patterns; non-trivial = an ls-subscription whose child set changed >= 2 times, at least once through a delete/pdelete/session end; distinct = history",
        weights(),
        3,
        max_ops,
        n,
        opts(),
        classify,
    );
    check.finish()
}
