//! C01 Reads return exactly what the accepted writes imply.

use super::hist::*;
use crate::evidence::Check;
use crate::interp::{HistStats, Opts};
use crate::ops::*;
use crate::util::RunCfg;
use serde_json::json;

fn classify(s: &HistStats) -> (bool, Vec<&'static str>) {
    let mut classes = vec![];
    if s.rejected_mutations > 0 {
        classes.push("has_rejected_mutation");
    }
    if s.branch_emptying_deletes > 0 {
        classes.push("has_branch_emptying_delete");
    }
    if s.import_over_existing > 0 {
        classes.push("has_import_over_existing_key");
    }
    if s.cas_conflicts > 0 {
        classes.push("has_cas_conflict");
    }
    if s.accepted_writes >= 3 {
        classes.push("three_or_more_accepted_writes");
    }
    let nontrivial = (s.rejected_mutations > 0 || s.branch_emptying_deletes > 0 || s.import_over_existing > 0) && s.accepted_writes >= 3;
    (nontrivial, classes)
}

pub fn opts() -> Opts {
    Opts {
        readback: true,
        events: true,
        ls: false,
        locks: false,
        sys: false,
        fold: false,
        observer: true,
        readback_every: 1,
    }
}

pub fn exhaustive_alphabet() -> Vec<Op> {
    let mut a = vec![];
    for k in ["a", "a/b"] {
        for v in [1, 2] {
            a.push(Op::Set { c: 0, key: k.into(), value: json!(v) });
        }
        for ver in [0u64, 1, 2] {
            a.push(Op::CSet { c: 1, key: k.into(), value: json!(3), ver: Ver::Abs(ver) });
        }
        a.push(Op::Delete { c: 0, key: k.into() });
        a.push(Op::Import { entries: vec![ImportEntry { key: k.into(), value: json!(9), cas: None }] });
        a.push(Op::Import { entries: vec![ImportEntry { key: k.into(), value: json!(3), cas: Some(2) }] });
    }
    for p in ["a/?", "a/#", "#"] {
        a.push(Op::PDelete { c: 1, pattern: p.into() });
    }
    a
}

pub fn run(cfg: &RunCfg) -> i32 {
    let mut check = Check::new(cfg, "exploration");
    check.assume("direct core engine: requests are applied one at a time to worterbuch::verif::Worterbuch (the type the server task owns); extended monitoring off");
    check.assume("the accept/reject verdict of a request is predicted only where C02/C04/C08 pin it, otherwise the server's verdict is taken and only its consequences are checked");

    let max_len = cfg.tier.pick(4, 5);
    let seqs = all_sequences(&exhaustive_alphabet(), max_len);
    let cases: Vec<History> = seqs.into_iter().map(|ops| History { preconnected: 2, ops }).collect();
    enumerated_part(
        &mut check,
        cfg,
        "exhaustive",
        &format!(
            "every sequence of length 1..={max_len} over 21 requests (set/cset/delete/import on keys a, a/b; pdelete a/?, a/#, #) by two clients; full read-back (pget #, cget, ls of every prefix, len) after every request; non-trivial = (a rejected mutation or a branch-emptying delete or an import over an existing key) and >= 3 accepted writes; distinct = sequence"
        ),
        cases,
        opts(),
        classify,
    );

    let n = cfg.cases(60_000, 1_500_000);
    let max_ops = cfg.tier.pick(40, 120);
    random_part(
        &mut check,
        cfg,
        "random",
        "seeded random histories (1..=max ops) over set/cset/delete/pdelete/import/publish/reads by 1-3 clients and the internal client over a colliding key pool (empty, unicode, long segments), same oracle; non-trivial as above",
        Weights::writes(),
        3,
        max_ops,
        n,
        opts(),
        classify,
    );
    if cfg.tier == crate::util::Tier::Thorough && !check.has_violation() {
        crate::fuzzrun::run_campaign(
            &mut check,
            cfg,
            &crate::fuzzrun::Campaign {
                target: "store_ops",
                server_feature: true,
                runs: (400_000.0 * cfg.scale) as u64,
                max_len: 400,
                rule: "coverage guided libFuzzer campaign: bytes are decoded (arbitrary::Unstructured) into a history of up to 60 requests that runs through the same interpreter and reference-model oracle (full read-back, events, ls-subscriptions, folds); evaluations = executed inputs, distinct non-trivial = inputs that reached new coverage",
            },
        );
    }
    check.finish()
}
