//! C18 Incremental (ReDB) persistence recovers a prefix of what was applied.

use crate::evidence::{Check, KnownFindings};
use crate::model::*;
use crate::procsrv::ServerProc;
use crate::util::{CaseReport, Failure, RunCfg, block_on, map_idx, run_prop, scratch_dir};
use crate::wire::{Recv, Session, kind_and_tid};
use proptest::prelude::*;
use serde::{Deserialize, Serialize};
use serde_json::{Value, json};
use std::collections::BTreeMap;
use std::time::Duration;

#[derive(Clone, Debug, PartialEq, Serialize, Deserialize)]
pub enum Ver {
    Current,
    Stale,
    Zero,
}

#[derive(Clone, Debug, PartialEq, Serialize, Deserialize)]
pub enum W {
    Set(String, Value),
    CSet(String, Value, Ver),
    Delete(String),
    PDelete(String),
    GraveGoods(Vec<String>),
    LastWill(Vec<(String, Value)>),
    DeleteGraveGoods,
    DeleteLastWill,
}

#[derive(Clone, Debug, PartialEq, Serialize, Deserialize)]
pub enum Stop {
    /// SIGKILL immediately after the answer to the idx-th request has been read
    KillAfterAck(u16),
    /// SIGKILL after all answers have been read and a pause of so many 100 microseconds
    KillAfterPause(u8),
    /// SIGTERM after all answers have been read (clean stop)
    Term,
    /// SIGKILL after all answers have been read and a pause of so many milliseconds
    KillAfterMs(u16),
}

#[derive(Clone, Debug, PartialEq, Serialize, Deserialize)]
pub struct Case {
    pub writes: Vec<W>,
    pub stop: Stop,
    /// (position, milliseconds): the client pauses before the request at this position (lets a
    /// periodic flush happen in the middle of the history; used by the JSON-mode part of C10)
    #[serde(default)]
    pub pause_at: Option<(u16, u16)>,
}

/// persistence backend of the server process and its flush interval in seconds
#[derive(Clone, Copy, Debug)]
pub struct Backend {
    pub mode: &'static str,
    pub interval_s: u64,
    pub prop: &'static str,
    /// after a clean stop the whole history must be recovered (C18 states this for the incremental
    /// backend; C10 only promises "the last completed flush or the one in progress")
    pub clean_stop_recovers_everything: bool,
}

pub const REDB: Backend = Backend { mode: "ReDB", interval_s: 3600, prop: "C18", clean_stop_recovers_everything: true };
/// JSON mode with the shortest flush interval the configuration allows (C10's process part)
pub const JSON_1S: Backend = Backend { mode: "Json", interval_s: 1, prop: "C10", clean_stop_recovers_everything: false };

#[derive(Clone)]
struct State {
    data: BTreeMap<Path, Entry>,
    gg: Option<Vec<String>>,
    lw: Option<Vec<(String, Value)>>,
}

impl State {
    /// what a start from this state must serve
    fn recovered(&self) -> BTreeMap<String, (Value, u64)> {
        let mut w = World::new();
        w.data = self.data.clone();
        let mut fx = Effects::default();
        for g in self.gg.clone().unwrap_or_default() {
            let p = parse_pattern(&g);
            if g.is_empty() || !pattern_valid(&p) {
                continue;
            }
            w.apply_pdelete(&p, INTERNAL, &mut fx);
        }
        for (k, v) in self.lw.clone().unwrap_or_default() {
            if k.is_empty() || has_wildcard(&parse_pattern(&k)) || split(&k)[0] == SYS {
                continue;
            }
            w.apply_set(&k, v, INTERNAL, &mut fx);
        }
        w.data.iter().filter(|(k, _)| k[0] != SYS).map(|(k, e)| (join(k), (e.value.clone(), e.version()))).collect()
    }
}

/// under the server's own tree: first segment exactly `$SYS` (`$SYSx/..` is an ordinary key)
fn in_sys(k: &str) -> bool {
    k == "$SYS" || k.starts_with("$SYS/")
}

fn user_key(k: &str) -> bool {
    !k.is_empty() && !in_sys(k) && !k.split('/').any(|s| s == "?" || s == "#")
}

async fn read_state(s: &mut Session) -> Result<BTreeMap<String, (Value, u64)>, Failure> {
    s.send_json(&json!({"pGet": {"transactionId": 1, "requestPattern": "#"}})).await;
    let kvps = loop {
        match s.recv(Duration::from_secs(20)).await {
            Recv::Msg(v) if kind_and_tid(&v) == Some(("pState".into(), 1)) => break v["pState"]["keyValuePairs"].as_array().cloned().unwrap_or_default(),
            Recv::Msg(_) => {}
            other => return Err(Failure::new("c18.readback", "pState", format!("{other:?}")).sig(json!({"obs": "timeout"}))),
        }
    };
    let mut out = BTreeMap::new();
    let mut tid = 10u64;
    for kv in kvps {
        let key = kv["key"].as_str().unwrap_or("").to_owned();
        if in_sys(&key) {
            continue;
        }
        tid += 1;
        s.send_json(&json!({"cGet": {"transactionId": tid, "key": key}})).await;
        loop {
            match s.recv(Duration::from_secs(20)).await {
                Recv::Msg(v) if kind_and_tid(&v).map(|x| x.1) == Some(tid) => {
                    out.insert(key.clone(), (v["cState"]["value"].clone(), v["cState"]["version"].as_u64().unwrap_or(0)));
                    break;
                }
                Recv::Msg(_) => {}
                other => return Err(Failure::new("c18.readback", "cState", format!("{other:?}")).sig(json!({"obs": "timeout"}))),
            }
        }
    }
    Ok(out)
}

async fn run_case(case: &Case, kfs: &KnownFindings, backend: Backend) -> Result<CaseReport, Failure> {
    let base = scratch_dir(backend.prop).join(format!("proc-{:?}", std::thread::current().id()).replace(['(', ')'], ""));
    let dir = crate::persist::fresh_dir(&base, "data");
    let sock = base.join("wb.sock");
    let mut rep = CaseReport::default();
    let interval = backend.interval_s.to_string();
    let env = [("WORTERBUCH_PERSISTENCE_INTERVAL", interval.as_str())];
    let mut proc1 = ServerProc::spawn(&dir, &sock, backend.mode, &env).map_err(|e| Failure::new("c18.spawn", "server process starts", e).sig(json!({"obs": "timeout"})))?;
    let mut s = Session::connect(&sock).await.map_err(|e| Failure::new("c18.connect", "welcome", e))?;
    let me_str = s.client_id();
    let me: Cid = uuid::Uuid::parse_str(&me_str).map(|u| u.as_u128()).unwrap_or(1);

    // plan: requests, and the sequence of states after every single-key change
    let mut cur = State { data: BTreeMap::new(), gg: None, lw: None };
    let mut states: Vec<State> = vec![cur.clone()];
    // for each request: index into `states` after its last change
    let mut after_req: Vec<usize> = vec![];
    // pdelete: the order of its single-key deletes is only known from its answer: (request index, first state index, keys)
    let mut pdeletes: Vec<(usize, usize, Vec<Path>)> = vec![];
    let mut lines = String::new();
    // byte offset of every request in `lines`
    let mut offsets: Vec<usize> = vec![];
    let mut m = World::new();
    let mut fx = Effects::default();
    let mut cas_ge2 = false;
    let mut big_pdelete = false;
    for (i, w) in case.writes.iter().enumerate() {
        let tid = i as u64 + 1;
        let msg = match w {
            W::Set(k, v) => {
                if user_key(k) && m.set_verdict(k, false) == SetVerdict::Ok {
                    m.apply_set(k, v.clone(), me, &mut fx);
                    cur.data = m.data.clone();
                    states.push(cur.clone());
                }
                json!({"set": {"transactionId": tid, "key": k, "value": v}})
            }
            W::CSet(k, v, ver) => {
                let c = m.get(k).map(|e| e.version()).unwrap_or(0);
                let carried = match ver {
                    Ver::Current => c,
                    Ver::Stale => c.saturating_sub(1),
                    Ver::Zero => 0,
                };
                if user_key(k) && m.cset_verdict(k, carried) != CsetVerdict::VersionMismatch {
                    m.apply_cset(k, v.clone(), carried, me, &mut fx);
                    if carried + 1 >= 2 {
                        cas_ge2 = true;
                    }
                    cur.data = m.data.clone();
                    states.push(cur.clone());
                }
                json!({"cSet": {"transactionId": tid, "key": k, "value": v, "version": carried}})
            }
            W::Delete(k) => {
                if user_key(k) && m.apply_delete(k, me, &mut fx).is_some() {
                    cur.data = m.data.clone();
                    states.push(cur.clone());
                }
                json!({"delete": {"transactionId": tid, "key": k}})
            }
            W::PDelete(p) => {
                let pat = parse_pattern(p);
                // patterns reaching $SYS are not part of this check
                if !p.is_empty() && pattern_valid(&pat) && !p.starts_with('#') && !p.starts_with('?') && !in_sys(p) {
                    let keys: Vec<Path> = m.data.keys().filter(|k| m.q_matches(&pat, k)).cloned().collect();
                    if keys.len() >= 2 {
                        big_pdelete = true;
                    }
                    if !keys.is_empty() {
                        pdeletes.push((i, states.len(), keys.clone()));
                        // provisional order (replaced by the order of the answer if it is seen)
                        for k in &keys {
                            m.data.remove(k);
                            cur.data = m.data.clone();
                            states.push(cur.clone());
                        }
                    }
                    json!({"pDelete": {"transactionId": tid, "requestPattern": p}})
                } else {
                    json!({"get": {"transactionId": tid, "key": "noop"}})
                }
            }
            W::GraveGoods(g) => {
                let g: Vec<String> = g.iter().filter(|p| !p.starts_with('#') && !p.starts_with('?') && !in_sys(p)).cloned().collect();
                cur.gg = Some(g.clone());
                states.push(cur.clone());
                json!({"set": {"transactionId": tid, "key": format!("$SYS/clients/{me_str}/graveGoods"), "value": g}})
            }
            W::LastWill(l) => {
                let l: Vec<(String, Value)> = l.iter().filter(|(k, _)| user_key(k)).cloned().collect();
                cur.lw = Some(l.clone());
                states.push(cur.clone());
                let v: Vec<Value> = l.iter().map(|(k, v)| json!({"key": k, "value": v})).collect();
                json!({"set": {"transactionId": tid, "key": format!("$SYS/clients/{me_str}/lastWill"), "value": v}})
            }
            W::DeleteGraveGoods => {
                if cur.gg.is_some() {
                    cur.gg = None;
                    states.push(cur.clone());
                }
                json!({"delete": {"transactionId": tid, "key": format!("$SYS/clients/{me_str}/graveGoods")}})
            }
            W::DeleteLastWill => {
                if cur.lw.is_some() {
                    cur.lw = None;
                    states.push(cur.clone());
                }
                json!({"delete": {"transactionId": tid, "key": format!("$SYS/clients/{me_str}/lastWill")}})
            }
        };
        after_req.push(states.len() - 1);
        offsets.push(lines.len());
        lines.push_str(&msg.to_string());
        lines.push('\n');
    }
    let n = case.writes.len();
    let kill_after = match &case.stop {
        Stop::KillAfterAck(i) => Some(map_idx(*i, n)),
        _ => None,
    };
    let mut answers: BTreeMap<u64, Value> = BTreeMap::new();
    // an optional pause of the client in the middle of the history (before the stop point)
    let cut = case.pause_at.map(|(p, ms)| (map_idx(p, n), ms)).filter(|(c, _)| *c >= 1 && kill_after.map(|k| *c <= k).unwrap_or(true));
    let mut sent_from = 0usize;
    if let Some((c, ms)) = cut {
        if !s.send_raw(lines[..offsets[c]].as_bytes()).await {
            return Err(Failure::new("c18.write", "requests are accepted", "write failed"));
        }
        sent_from = offsets[c];
        while !answers.contains_key(&(c as u64)) {
            match s.recv(Duration::from_secs(20)).await {
                Recv::Msg(v) => {
                    if let Some((_, t)) = kind_and_tid(&v) {
                        answers.insert(t, v);
                    }
                }
                Recv::Closed => return Err(Failure::new("c18.session", "the session stays open", "closed")),
                _ => return Err(Failure::new("c18.answers", "answers within 20 s", "timeout").sig(json!({"obs": "timeout"}))),
            }
        }
        tokio::time::sleep(Duration::from_millis(ms as u64)).await;
        rep.classes.push("client_paused_in_the_middle");
    }
    if !s.send_raw(lines[sent_from..].as_bytes()).await {
        return Err(Failure::new("c18.write", "requests are accepted", "write failed"));
    }
    // read answers up to the stop point
    let wait_for = kill_after.map(|k| k as u64 + 1).unwrap_or(n as u64);
    while !answers.contains_key(&wait_for) {
        match s.recv(Duration::from_secs(20)).await {
            Recv::Msg(v) => {
                if let Some((_, t)) = kind_and_tid(&v) {
                    answers.insert(t, v);
                }
            }
            Recv::Closed => return Err(Failure::new("c18.session", "the session stays open", "closed")),
            _ => return Err(Failure::new("c18.answers", "answers within 20 s", "timeout").sig(json!({"obs": "timeout"}))),
        }
    }
    let clean = match &case.stop {
        Stop::KillAfterAck(_) => {
            proc1.kill();
            false
        }
        Stop::KillAfterPause(p) => {
            tokio::time::sleep(Duration::from_micros(*p as u64 * 100)).await;
            proc1.kill();
            false
        }
        Stop::KillAfterMs(ms) => {
            tokio::time::sleep(Duration::from_millis(*ms as u64)).await;
            proc1.kill();
            false
        }
        Stop::Term => {
            if !proc1.term() {
                return Err(Failure::new("c18.term", "the server stops within 20 s after SIGTERM", "it had to be killed"));
            }
            true
        }
    };
    for v in s.drain() {
        if let Some((_, t)) = kind_and_tid(&v) {
            answers.insert(t, v);
        }
    }
    // use the order of the answer for every pdelete whose answer was seen
    for (ri, first, keys) in &pdeletes {
        if let Some(a) = answers.get(&(*ri as u64 + 1))
            && let Some(list) = a["pState"]["deleted"].as_array()
        {
            let order: Vec<Path> = list.iter().filter_map(|kv| kv["key"].as_str().map(split)).collect();
            if order.len() == keys.len() && keys.iter().all(|k| order.contains(k)) {
                let mut data = states[*first - 1].data.clone();
                for (j, k) in order.iter().enumerate() {
                    data.remove(k);
                    states[*first + j].data = data.clone();
                }
            } else {
                return Err(Failure::new("c18.pdelete_answer", format!("{keys:?}"), format!("{order:?}")));
            }
        }
    }
    // restart on the same directory and read back
    let mut proc2 = ServerProc::spawn(&dir, &sock, backend.mode, &env).map_err(|e| {
        // "spawn: ..." = the operating system could not start the process at all (e.g. the harness
        // binary was replaced while the check was running): an accident of the environment
        let sig = if e.starts_with("spawn:") { json!({"obs": "timeout"}) } else { json!({"obs": "c18.respawn"}) };
        Failure::new("c18.respawn", "server restarts on the data directory", e).sig(sig)
    })?;
    let mut s2 = Session::connect(&sock).await.map_err(|e| Failure::new("c18.connect", "welcome", e))?;
    let got = read_state(&mut s2).await;
    proc2.kill();
    let got = got?;

    // which prefix explains the recovered state (latest first)
    let acked_changes = after_req.get(wait_for as usize - 1).copied().unwrap_or(0);
    let mut matched: Option<usize> = None;
    let lo = if clean && backend.clean_stop_recovers_everything { states.len() - 1 } else { 0 };
    for i in (lo..states.len()).rev() {
        // inside a pdelete whose answer was not seen any subset of its keys may be gone
        if states[i].recovered() == got {
            matched = Some(i);
            break;
        }
    }
    if matched.is_none() && !clean {
        for (ri, first, keys) in &pdeletes {
            if answers.contains_key(&(*ri as u64 + 1)) {
                continue;
            }
            let base = &states[*first - 1];
            for mask in 0u32..(1 << keys.len().min(10)) {
                let mut st = base.clone();
                for (j, k) in keys.iter().enumerate() {
                    if mask & (1 << j) != 0 {
                        st.data.remove(k);
                    }
                }
                if st.recovered() == got {
                    matched = Some(*first);
                }
            }
        }
    }
    let Some(i) = matched else {
        let fin = states.last().expect("non-empty").recovered();
        // diagnosis: does the final state match if CAS versions are ignored
        let strip = |m: &BTreeMap<String, (Value, u64)>| -> BTreeMap<String, Value> { m.iter().map(|(k, v)| (k.clone(), v.0.clone())).collect() };
        let versions_only = states.iter().any(|st| strip(&st.recovered()) == strip(&got));
        let sig = if versions_only {
            json!({"obs": "c18.recovered_state", "difference": "CAS versions only"})
        } else if clean {
            json!({"obs": "c18.recovered_state", "stop": "clean"})
        } else {
            json!({"obs": "c18.recovered_state", "stop": "kill"})
        };
        let f = Failure::new(
            "c18.recovered_state",
            format!("the state after some prefix of the {} single-key changes{}; the final state would be {fin:?}", states.len() - 1, if clean && backend.clean_stop_recovers_everything { " (all of them after a clean stop)" } else { "" }),
            format!("{got:?}"),
        )
        .sig(sig);
        match kfs.matching(backend.prop, &f.signature) {
            Some(k) => {
                rep.kf.push(k.id.clone());
                return Ok(rep);
            }
            None => return Err(f),
        }
    };
    let real_cut = !clean && i < acked_changes;
    if real_cut {
        rep.classes.push("real_cut_acknowledged_change_missing");
    }
    if clean {
        rep.classes.push("clean_stop");
    }
    if big_pdelete {
        rep.classes.push("pdelete_of_2_or_more_keys");
    }
    if cas_ge2 {
        rep.classes.push("cas_key_with_version_ge_2");
    }
    rep.counters = vec![("changes", states.len() as u64 - 1), ("recovered_prefix", i as u64)];
    rep.nontrivial = (real_cut || clean) && (big_pdelete || cas_ge2);
    Ok(rep)
}

pub fn check_case(case: &Case, kfs: &KnownFindings) -> Result<CaseReport, Failure> {
    check_case_on(case, kfs, REDB)
}

pub fn check_case_on(case: &Case, kfs: &KnownFindings, backend: Backend) -> Result<CaseReport, Failure> {
    match block_on(run_case(case, kfs, backend)) {
        Err(f) if f.signature.get("obs").and_then(|o| o.as_str()) == Some("timeout") => Ok(CaseReport { inconclusive: true, ..Default::default() }),
        other => other,
    }
}

fn key() -> BoxedStrategy<String> {
    // `$SYSx` and `$SYS-b` are ordinary segments that merely start like the server's own tree
    proptest::collection::vec(prop_oneof![8 => Just("a"), 6 => Just("b"), 4 => Just("c"), 2 => Just("ä"), 1 => Just("$SYSx"), 1 => Just("$SYS-b")], 1..=3).prop_map(|v| v.join("/")).boxed()
}

fn pat() -> BoxedStrategy<String> {
    prop_oneof![
        3 => key().prop_map(|k| format!("{k}/#")),
        3 => key().prop_map(|k| {
            let mut s: Vec<&str> = k.split('/').collect();
            s.pop();
            s.push("?");
            s.join("/")
        }),
        2 => key().prop_map(|k| {
            let mut s: Vec<&str> = k.split('/').collect();
            s.pop();
            s.push("#");
            s.join("/")
        }),
        1 => key(),
    ]
    .prop_map(|p| if p.starts_with('?') || p.starts_with('#') { format!("a/{p}") } else { p })
    .boxed()
}

fn case(max: usize, known_shapes: bool) -> BoxedStrategy<Case> {
    (writes(max, known_shapes), prop_oneof![5 => any::<u16>().prop_map(Stop::KillAfterAck), 2 => (0..50u8).prop_map(Stop::KillAfterPause), 3 => Just(Stop::Term)])
        .prop_map(|(writes, stop)| Case { writes, stop, pause_at: None })
        .boxed()
}

pub fn writes(max: usize, known_shapes: bool) -> BoxedStrategy<Vec<W>> {
    let val = || crate::ops::small_value();
    let mut alts: Vec<(u32, BoxedStrategy<W>)> = vec![
        (12, (key(), val()).prop_map(|(k, v)| W::Set(k, v)).boxed()),
        (8, (key(), val(), prop_oneof![5 => Just(Ver::Current), 1 => Just(Ver::Stale), 2 => Just(Ver::Zero)]).prop_map(|(k, v, r)| W::CSet(k, v, r)).boxed()),
        (5, key().prop_map(W::Delete).boxed()),
        (4, pat().prop_map(W::PDelete).boxed()),
        (2, proptest::collection::vec(prop_oneof![pat(), key()], 0..=2).prop_map(W::GraveGoods).boxed()),
        (2, proptest::collection::vec((key(), val()), 0..=2).prop_map(W::LastWill).boxed()),
    ];
    if known_shapes {
        alts.push((1, Just(W::DeleteGraveGoods).boxed()));
        alts.push((1, Just(W::DeleteLastWill).boxed()));
    }
    let w = proptest::strategy::Union::new_weighted(alts);
    proptest::collection::vec(w, 1..=max).boxed()
}

pub fn run(cfg: &RunCfg) -> i32 {
    let mut check = Check::new(cfg, "fault_enumeration");
    check.assume("process engine: a real server process (the server's main compiled into the harness binary, configured by WORTERBUCH_* variables, ReDB backend) is written to over its unix socket in one pipelined burst and stopped by SIGKILL right after a generated answer was read, by SIGKILL after a short pause, or by SIGTERM; a second process on the same directory is read back");
    check.assume("one client only, so the applied order is the request order; the order of the single-key deletes of a pdelete is taken from its answer (any subset if the answer was not seen); requests that reach $SYS by wildcard are not generated");
    check.assume("only the existence of some explaining prefix is required after a kill (all changes after a clean stop); cuts cannot be enumerated (they depend on the background writer's timing), they are sampled and the fraction of real cuts is reported");
    let kfs = check.kf.clone();
    let n = cfg.cases(400, 30_000);
    let max = cfg.tier.pick(40, 120);
    let (agg, v) = run_prop(cfg, "main", n, move || case(max, false), |c: &Case| check_case(c, &kfs));
    check.add_part(
        "main",
        "1..=40 pipelined requests (set, cset with current/stale/zero version, delete, pdelete, registration of grave goods / last will) by one client, then SIGKILL after a generated answer / SIGKILL after a pause of 0-5 ms / SIGTERM; oracle: the user keys served by a restarted process (value, kind, CAS version) equal the state after some prefix of the sequence of single-key changes with the registrations of that prefix applied (the whole sequence after a clean stop); non-trivial = (a real cut - an acknowledged change missing - or a clean stop) and (a pdelete of >= 2 keys or a CAS key with version >= 2); distinct = case",
        false,
        agg,
    );
    if let Some(v) = v {
        check.violate("main", &v.case, v.failure);
    }
    if !check.has_violation() {
        let n = cfg.cases(150, 8_000);
        let (agg, v) = run_prop(cfg, "withdrawn-registrations", n, move || case(max, true), |c: &Case| check_case(c, &kfs));
        check.add_part("withdrawn-registrations", "same, including deletes of the client's own graveGoods / lastWill entries (withdrawn registrations)", false, agg);
        if let Some(v) = v {
            check.violate("withdrawn-registrations", &v.case, v.failure);
        }
    }
    check.finish()
}
