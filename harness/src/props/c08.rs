//! C08 Clients cannot alter or fake the server's $SYS information.

use super::hist::*;
use crate::evidence::Check;
use crate::interp::{HistStats, Opts, cid};
use crate::model::client_name;
use crate::ops::*;
use crate::util::{RunCfg, run_prop};
use proptest::prelude::*;
use serde_json::json;

fn classify(s: &HistStats) -> (bool, Vec<&'static str>) {
    let mut classes = vec![];
    if s.sys_wildcard_reach > 0 {
        classes.push("wildcard_request_reaching_sys");
    }
    if s.sys_foreign_target > 0 {
        classes.push("request_on_protected_sys_key");
    }
    if s.disconnects > 0 {
        classes.push("has_disconnect");
    }
    if s.rejected_mutations > 0 {
        classes.push("has_rejected_mutation");
    }
    (s.sys_wildcard_reach > 0 || s.sys_foreign_target > 0, classes)
}

pub fn opts() -> Opts {
    Opts {
        readback: true,
        events: true,
        ls: false,
        locks: false,
        sys: true,
        fold: false,
        observer: true,
        readback_every: 1,
    }
}

pub fn weights() -> Weights {
    Weights {
        connect: 3,
        disconnect: 6,
        set: 14,
        iset: 3,
        cset: 10,
        delete: 10,
        pdelete: 12,
        import: 0,
        publish: 5,
        spub: 6,
        reads: 1,
        subscribe: 1,
        psubscribe: 2,
        unsubscribe: 0,
        subscribe_ls: 0,
        unsubscribe_ls: 0,
        lock: 0,
        acquire: 0,
        release: 0,
        registrations: 12,
        bad_patterns: 1,
        sys_targets: 60,
        reset: 0,
    }
}

fn setup() -> Vec<Op> {
    vec![
        Op::ISet { key: "$SYS/sentinel/a".into(), value: json!("server") },
        Op::ISet { key: "$SYS/sentinel/b".into(), value: json!(1) },
        Op::ISet { key: "$SYS/version".into(), value: json!("1.2.3") },
        Op::Set { c: 0, key: "u/x".into(), value: json!(1) },
        Op::SetGraveGoods { c: 1, patterns: json!(["u/#"]) },
        Op::SetLastWill { c: 1, will: json!([{"key": "u/will", "value": 1}]) },
    ]
}

fn literal_shapes() -> Vec<String> {
    let mut v: Vec<String> = ["$SYS", "$SYS/version", "$SYS/clients", "$SYS/sentinel/a", "$SYS/sentinel/b", "$SYS/", "$SYS/store/mode", "$SYS/new", "$SYSx/ok"]
        .iter()
        .map(|s| s.to_string())
        .collect();
    for c in 0..3u8 {
        let n = client_name(cid(c));
        for leaf in ["graveGoods", "lastWill", "clientName", "protocol", "address", "subscriptions"] {
            v.push(format!("$SYS/clients/{n}/{leaf}"));
        }
        v.push(format!("$SYS/clients/{n}"));
        v.push(format!("$SYS/clients/{n}/graveGoods/x"));
    }
    v
}

fn pattern_shapes() -> Vec<String> {
    let mut v: Vec<String> = [
        "#",
        "?",
        "?/version",
        "?/#",
        "?/?",
        "$SYS/#",
        "$SYS/?",
        "$SYS/clients/?/graveGoods",
        "$SYS/clients/?/lastWill",
        "$SYS/clients/#",
        "?/clients/?/?",
        "?/sentinel/?",
        "?/sentinel/#",
    ]
    .iter()
    .map(|s| s.to_string())
    .collect();
    for c in 0..3u8 {
        let n = client_name(cid(c));
        v.push(format!("$SYS/clients/{n}/#"));
        v.push(format!("$SYS/clients/{n}/?"));
        v.push(format!("?/clients/{n}/graveGoods"));
    }
    v
}

fn table() -> Vec<History> {
    let mut out = vec![];
    let mut shapes = literal_shapes();
    shapes.extend(pattern_shapes());
    for k in shapes {
        let reg_value_ok = |key: &str| -> serde_json::Value {
            if key.ends_with("/graveGoods") {
                json!(["u/x"])
            } else if key.ends_with("/lastWill") {
                json!([{"key": "u/y", "value": 2}])
            } else {
                json!(7)
            }
        };
        let variants: Vec<Vec<Op>> = vec![
            vec![Op::Set { c: 0, key: k.clone(), value: reg_value_ok(&k) }],
            vec![Op::CSet { c: 0, key: k.clone(), value: reg_value_ok(&k), ver: Ver::Abs(0) }],
            vec![Op::CSet { c: 0, key: k.clone(), value: reg_value_ok(&k), ver: Ver::Current }],
            vec![Op::Delete { c: 0, key: k.clone() }],
            vec![Op::PDelete { c: 0, pattern: k.clone() }],
            vec![Op::Publish { key: k.clone(), value: json!("fake") }],
            vec![Op::SPubInit { c: 0, key: k.clone() }, Op::SPub { c: 0, idx: 0, value: json!("fake") }],
            vec![Op::SetGraveGoods { c: 0, patterns: json!([k.clone()]) }, Op::Disconnect(0)],
            vec![Op::SetLastWill { c: 0, will: json!([{"key": k.clone(), "value": "fake"}]) }, Op::Disconnect(0)],
        ];
        for v in variants {
            let mut ops = setup();
            ops.extend(v);
            // everything still readable afterwards
            ops.push(Op::PGet { pattern: "$SYS/#".into() });
            out.push(History { preconnected: 3, ops });
        }
    }
    out
}

pub fn run(cfg: &RunCfg) -> i32 {
    let mut check = Check::new(cfg, "exploration");
    check.assume("direct core engine with extended monitoring off, so that the model reproduces the server's own $SYS bookkeeping (client count, protocol, address) exactly; sentinels under $SYS are planted by the internal client");
    check.assume("publish carries no client id through the core API: every publish is attributed to an ordinary client (the internal server code never publishes)");
    let cases = table();
    let ncases = cases.len();
    enumerated_part(
        &mut check,
        cfg,
        "table",
        &format!("{ncases} single-request cases: 9 request kinds (set, cset@0, cset@current, delete, pdelete, publish, spub, grave goods at session end, last will at session end) x every literal and wildcard key shape that can reach $SYS (own / other clients' entries, sentinels, first-segment wildcards); oracle: request on a protected key rejected, full store read-back incl. $SYS equal to the model, a catch-all subscriber sees no event for a protected $SYS key caused by a client request; non-trivial = the request reaches $SYS by wildcard or targets a protected key"),
        cases,
        opts(),
        classify,
    );
    if !check.has_violation() {
        let n = cfg.cases(60_000, 1_500_000);
        let max_ops = cfg.tier.pick(25, 80);
        let kfs = check.kf.clone();
        let prop = cfg.prop.clone();
        let o = opts();
        let (agg, v) = run_prop(
            cfg,
            "random",
            n,
            || {
                history(weights(), 3, max_ops)
                    .prop_map(|mut h| {
                        let mut ops = setup();
                        ops.append(&mut h.ops);
                        History { preconnected: 3, ops }
                    })
                    .boxed()
            },
            |h: &History| {
                let stats = run_one(h, &o, &kfs, &prop)?;
                Ok(report(&stats, classify))
            },
        );
        check.add_part(
            "random",
            "seeded random histories (after the same setup) in which 60 % of the keys and patterns are $SYS shapes: all request kinds incl. registrations and session ends by 3 clients; same oracle",
            false,
            agg,
        );
        if let Some(v) = v {
            check.violate("random", &v.case, v.failure);
        }
    }
    check.finish()
}
