//! C03 over the wire: subscriptions of socket sessions (TCP and unix) on the whole in-process
//! server. The reference model predicts, per subscription, the snapshot and the events of every
//! request; the harness waits for exactly those, compares the per-key sequences and requires
//! silence of ended subscriptions. This reaches the per-subscription forwarding tasks of
//! `server/common/protocol/v0.rs`, which the direct core engine does not run.

use crate::evidence::Check;
use crate::model::*;
use crate::util::{CaseReport, Failure, RunCfg, block_on, map_idx, run_prop};
use crate::wire::{Recv, Session, WireServer, kind_and_tid};
use proptest::prelude::*;
use serde::{Deserialize, Serialize};
use serde_json::{Value, json};
use std::collections::BTreeMap;
use std::time::Duration;

#[derive(Clone, Debug, Serialize, Deserialize)]
pub enum SOp {
    Set { c: u8, key: u16, value: u8 },
    CSet { c: u8, key: u16, value: u8 },
    Publish { c: u8, key: u16, value: u8 },
    Delete { c: u8, key: u16 },
    PDelete { c: u8, pattern: u16 },
    Subscribe { c: u8, key: u16, unique: bool, live_only: bool },
    PSubscribe { c: u8, pattern: u16, unique: bool, live_only: bool },
    Unsubscribe { c: u8, idx: u16 },
    End { c: u8 },
}

#[derive(Clone, Debug, Serialize, Deserialize)]
pub struct SubCase {
    /// true = TCP, false = unix socket, per client
    pub tcp: Vec<bool>,
    pub ops: Vec<SOp>,
}

const KEYS: [&str; 6] = ["a/b", "a/c", "a/b/x", "d", "e/f/g", "ä/ö"];
/// no pattern is `K/#` for a key K of the pool (known finding D3 is kept out by construction)
const PATTERNS: [&str; 12] = ["a/#", "a/?", "#", "?/b", "a/b", "a/?/x", "e/#", "d", "?", "a/#/b", "x/y", "?/?"];

fn cid(c: usize) -> Cid {
    200 + c as Cid
}

fn value(v: u8) -> Value {
    match v % 5 {
        0 => json!(v % 3),
        1 => json!("s"),
        2 => json!({"n": v % 2}),
        3 => Value::Null,
        _ => json!([1, "x"]),
    }
}

struct SubSt {
    key: String,
    is_pattern: bool,
    alive: bool,
    /// events received and not yet compared: (key, value, deleted)
    got: Vec<(String, Value, bool)>,
}

struct Cl {
    s: Session,
    tid: u64,
    subs: BTreeMap<u64, SubSt>,
    /// order of creation of the live subscriptions
    live: Vec<u64>,
}

fn timeout(what: &str) -> Failure {
    Failure::new("c03w.timeout", format!("{what} within 20 s"), "nothing").sig(json!({"obs": "timeout"}))
}

impl Cl {
    fn take(&mut self, m: Value) -> Result<(), Failure> {
        let Some((kind, tid)) = kind_and_tid(&m) else { return Ok(()) };
        let Some(sub) = self.subs.get_mut(&tid) else {
            return Err(Failure::new("c03w.stray_message", "only answers to requests and events of subscriptions", m.to_string()));
        };
        match kind.as_str() {
            "state" if !sub.is_pattern => {
                let b = &m["state"];
                if let Some(v) = b.get("value") {
                    sub.got.push((sub.key.clone(), v.clone(), false));
                } else if let Some(v) = b.get("deleted") {
                    sub.got.push((sub.key.clone(), v.clone(), true));
                }
            }
            "pState" if sub.is_pattern => {
                let b = &m["pState"];
                let (list, deleted) = match (b.get("keyValuePairs"), b.get("deleted")) {
                    (Some(l), _) => (l.clone(), false),
                    (_, Some(l)) => (l.clone(), true),
                    _ => (Value::Null, false),
                };
                for kv in list.as_array().cloned().unwrap_or_default() {
                    let k = kv["key"].as_str().unwrap_or("").to_owned();
                    // the server's own $SYS bookkeeping (client count, uptime, ...) reaches wildcard
                    // subscriptions at times of its own; it is not part of this model
                    if k.starts_with("$SYS") {
                        continue;
                    }
                    sub.got.push((k, kv["value"].clone(), deleted));
                }
            }
            _ => return Err(Failure::new("c03w.event_kind", format!("events of subscription {tid} have the kind of the subscription"), m.to_string())),
        }
        Ok(())
    }

    /// the ack / err (or data answer) of request `tid`; events met on the way are filed
    async fn answer(&mut self, tid: u64) -> Result<Value, Failure> {
        let deadline = tokio::time::Instant::now() + Duration::from_secs(20);
        loop {
            let left = deadline.saturating_duration_since(tokio::time::Instant::now());
            if left.is_zero() {
                return Err(timeout(&format!("answer to transaction {tid}")));
            }
            match self.s.recv(left).await {
                Recv::Msg(m) => {
                    let is_answer = match kind_and_tid(&m) {
                        Some((k, t)) => t == tid && (!self.subs.contains_key(&tid) || k == "ack" || k == "err"),
                        None => false,
                    };
                    if is_answer {
                        return Ok(m);
                    }
                    self.take(m)?;
                }
                Recv::Garbage(l) => return Err(Failure::new("c03w.garbage", "JSON lines", l)),
                Recv::Closed => return Err(Failure::new("c03w.closed", format!("an answer to transaction {tid}"), "the server closed the session")),
                Recv::Timeout => return Err(timeout(&format!("answer to transaction {tid}"))),
            }
        }
    }

    async fn request(&mut self, kind: &str, mut body: Value) -> Result<Value, Failure> {
        self.tid += 1;
        let tid = self.tid;
        body["transactionId"] = json!(tid);
        if !self.s.send_json(&json!({ kind: body })).await {
            return Err(Failure::new("c03w.send", "the request can be written", "write failed"));
        }
        self.answer(tid).await
    }

    /// wait until subscription `tid` has received at least `n` events; while waiting the session keeps
    /// making round trips, so that "not delivered" is backed by answered later requests
    async fn await_events(&mut self, tid: u64, n: usize) -> Result<(), Failure> {
        let start = tokio::time::Instant::now();
        let mut pings = 0u64;
        loop {
            if self.subs.get(&tid).map(|s| s.got.len()).unwrap_or(0) >= n {
                return Ok(());
            }
            match self.s.recv(Duration::from_millis(40)).await {
                Recv::Msg(m) => self.take(m)?,
                Recv::Timeout => {
                    let m = self.request("get", json!({"key": "c03w/ping"})).await?;
                    let _ = m;
                    pings += 1;
                    if pings >= 100 && start.elapsed() > Duration::from_secs(10) {
                        let have = self.subs.get(&tid).map(|s| s.got.len()).unwrap_or(0);
                        return Err(Failure::new(
                            "c03w.event_missing",
                            format!("subscription {tid} receives {n} events for the request"),
                            format!("{have} after {pings} later requests of the same session were answered ({:?})", start.elapsed()),
                        )
                        .sig(json!({"obs": "c03w.event_missing"})));
                    }
                }
                Recv::Garbage(l) => return Err(Failure::new("c03w.garbage", "JSON lines", l)),
                Recv::Closed => return Err(Failure::new("c03w.closed", "events", "the server closed the session")),
            }
        }
    }

    fn drain(&mut self) -> Result<(), Failure> {
        for m in self.s.drain() {
            self.take(m)?;
        }
        Ok(())
    }
}

fn ok_kind(m: &Value) -> String {
    kind_and_tid(m).map(|x| x.0).unwrap_or_default()
}

struct Run {
    world: World,
    clients: Vec<Option<Cl>>,
    step: usize,
    rep: CaseReport,
    events_checked: u64,
    snapshots: u64,
    subs_with_events: std::collections::BTreeSet<(usize, u64)>,
    silent_checked: u64,
}

impl Run {
    fn fail(&self, obs: &str, expected: impl std::fmt::Debug, actual: impl std::fmt::Debug) -> Failure {
        Failure::new(obs, format!("{expected:?}"), format!("{actual:?}")).at(self.step).sig(json!({"obs": obs}))
    }

    /// every subscription receives what the model predicts for this request, nothing else
    async fn settle(&mut self, fx: &Effects) -> Result<(), Failure> {
        let mut expected: BTreeMap<(usize, u64), Vec<&ExpEvent>> = BTreeMap::new();
        for e in &fx.events {
            expected.entry(((e.client - 200) as usize, e.tid)).or_default().push(e);
        }
        for ((c, tid), evs) in &expected {
            let Some(cl) = self.clients.get_mut(*c).and_then(|x| x.as_mut()) else { continue };
            let step = self.step;
            cl.await_events(*tid, evs.len()).await.map_err(|f| f.at(step))?;
        }
        for c in 0..self.clients.len() {
            let step = self.step;
            let Some(cl) = self.clients[c].as_mut() else { continue };
            cl.drain().map_err(|f| f.at(step))?;
            let tids: Vec<u64> = cl.subs.keys().copied().collect();
            for tid in tids {
                let sub = cl.subs.get_mut(&tid).expect("present");
                let got = std::mem::take(&mut sub.got);
                let exp = expected.remove(&(c, tid)).unwrap_or_default();
                if !sub.alive {
                    if !got.is_empty() {
                        return Err(Failure::new("c03w.event_after_end", format!("client {c}: silence of the ended subscription {tid}"), format!("{got:?}")).at(step).sig(json!({"obs": "c03w.event_after_end"})));
                    }
                    self.silent_checked += 1;
                    continue;
                }
                let mut keys: Vec<&str> = exp.iter().map(|e| e.key.as_str()).chain(got.iter().map(|g| g.0.as_str())).collect();
                keys.sort();
                keys.dedup();
                for key in keys {
                    let e: Vec<(&Value, bool)> = exp.iter().filter(|e| e.key == key).map(|e| (&e.value, e.deleted)).collect();
                    let g: Vec<(&Value, bool)> = got.iter().filter(|g| g.0 == key).map(|g| (&g.1, g.2)).collect();
                    if e != g {
                        return Err(Failure::new(
                            "c03w.events",
                            format!("client {c} subscription {tid} ({}) key {key:?}: {e:?}", sub.key),
                            format!("{g:?}"),
                        )
                        .at(step)
                        .sig(json!({"obs": "c03w.events"})));
                    }
                    self.events_checked += g.len() as u64;
                }
                if !got.is_empty() {
                    self.subs_with_events.insert((c, tid));
                }
            }
        }
        Ok(())
    }

    async fn op(&mut self, op: &SOp) -> Result<(), Failure> {
        let n = self.clients.len();
        let c = match op {
            SOp::Set { c, .. } | SOp::CSet { c, .. } | SOp::Publish { c, .. } | SOp::Delete { c, .. } | SOp::PDelete { c, .. } | SOp::Subscribe { c, .. } | SOp::PSubscribe { c, .. } | SOp::Unsubscribe { c, .. } | SOp::End { c } => *c as usize % n,
        };
        if self.clients[c].is_none() {
            self.rep.excluded.push(("request_of_an_ended_session", 1));
            return Ok(());
        }
        let me = cid(c);
        let mut fx = Effects::default();
        match op {
            SOp::Set { key, value: v, .. } => {
                let k = KEYS[map_idx(*key, KEYS.len())];
                let ok = self.world.set_verdict(k, false) == SetVerdict::Ok;
                if ok {
                    self.world.apply_set(k, value(*v), me, &mut fx);
                }
                let m = self.clients[c].as_mut().expect("open").request("set", json!({"key": k, "value": value(*v)})).await?;
                if (ok_kind(&m) == "ack") != ok {
                    return Err(self.fail("c03w.answer", if ok { "ack" } else { "err" }, m));
                }
            }
            SOp::CSet { key, value: v, .. } => {
                let k = KEYS[map_idx(*key, KEYS.len())];
                let ver = self.world.get(k).map(|e| e.version()).unwrap_or(0);
                self.world.apply_cset(k, value(*v), ver, me, &mut fx);
                let m = self.clients[c].as_mut().expect("open").request("cSet", json!({"key": k, "value": value(*v), "version": ver})).await?;
                if ok_kind(&m) != "ack" {
                    return Err(self.fail("c03w.answer", "ack", m));
                }
            }
            SOp::Publish { key, value: v, .. } => {
                let k = KEYS[map_idx(*key, KEYS.len())];
                self.world.apply_publish(k, value(*v), me, &mut fx);
                let m = self.clients[c].as_mut().expect("open").request("publish", json!({"key": k, "value": value(*v)})).await?;
                if ok_kind(&m) != "ack" {
                    return Err(self.fail("c03w.answer", "ack", m));
                }
            }
            SOp::Delete { key, .. } => {
                let k = KEYS[map_idx(*key, KEYS.len())];
                let existed = self.world.apply_delete(k, me, &mut fx).is_some();
                let m = self.clients[c].as_mut().expect("open").request("delete", json!({"key": k})).await?;
                if (ok_kind(&m) == "state") != existed {
                    return Err(self.fail("c03w.answer", if existed { "state" } else { "err" }, m));
                }
            }
            SOp::PDelete { pattern, .. } => {
                let p = PATTERNS[map_idx(*pattern, PATTERNS.len())];
                let pat = parse_pattern(p);
                let valid = pattern_valid(&pat);
                if valid {
                    self.world.apply_pdelete(&pat, me, &mut fx);
                }
                let m = self.clients[c].as_mut().expect("open").request("pDelete", json!({"requestPattern": p, "quiet": false})).await?;
                if (ok_kind(&m) == "pState") != valid {
                    return Err(self.fail("c03w.answer", if valid { "pState" } else { "err" }, m));
                }
            }
            SOp::Subscribe { key, unique, live_only, .. } => {
                let k = KEYS[map_idx(*key, KEYS.len())];
                let cl = self.clients[c].as_mut().expect("open");
                cl.tid += 1;
                let tid = cl.tid;
                cl.subs.insert(tid, SubSt { key: k.to_owned(), is_pattern: false, alive: true, got: vec![] });
                cl.live.push(tid);
                cl.s.send_json(&json!({"subscribe": {"transactionId": tid, "key": k, "unique": unique, "liveOnly": live_only}})).await;
                let m = cl.answer(tid).await?;
                if ok_kind(&m) != "ack" {
                    return Err(self.fail("c03w.answer", "ack", m));
                }
                // the snapshot, delivered as the first event of the subscription
                if !*live_only && let Some(e) = self.world.get(k) {
                    fx.events.push(ExpEvent { client: me, tid, key: k.to_owned(), value: e.value.clone(), deleted: false, optional: false });
                    self.snapshots += 1;
                }
                self.world.subs.push(Sub { client: me, tid, pattern: parse_pattern(k), is_pattern: false, unique: *unique, live_only: *live_only });
            }
            SOp::PSubscribe { pattern, unique, live_only, .. } => {
                let p = PATTERNS[map_idx(*pattern, PATTERNS.len())];
                let pat = parse_pattern(p);
                let valid = pattern_valid(&pat);
                let cl = self.clients[c].as_mut().expect("open");
                cl.tid += 1;
                let tid = cl.tid;
                if valid {
                    cl.subs.insert(tid, SubSt { key: p.to_owned(), is_pattern: true, alive: true, got: vec![] });
                    cl.live.push(tid);
                }
                cl.s.send_json(&json!({"pSubscribe": {"transactionId": tid, "requestPattern": p, "unique": unique, "liveOnly": live_only}})).await;
                let m = cl.answer(tid).await?;
                if (ok_kind(&m) == "ack") != valid {
                    return Err(self.fail("c03w.answer", if valid { "ack" } else { "err" }, m));
                }
                if valid {
                    if !*live_only {
                        for (k, v) in self.world.pget(&pat) {
                            fx.events.push(ExpEvent { client: me, tid, key: k, value: v, deleted: false, optional: false });
                        }
                        self.snapshots += 1;
                    }
                    self.world.subs.push(Sub { client: me, tid, pattern: pat, is_pattern: true, unique: *unique, live_only: *live_only });
                }
            }
            SOp::Unsubscribe { idx, .. } => {
                let cl = self.clients[c].as_mut().expect("open");
                if cl.live.is_empty() {
                    let m = cl.request("unsubscribe", json!({})).await?;
                    if ok_kind(&m) != "err" {
                        return Err(self.fail("c03w.answer", "err (not subscribed)", m));
                    }
                } else {
                    let i = map_idx(*idx, cl.live.len());
                    let tid = cl.live.remove(i);
                    // unsubscribe carries the transaction id of the subscription
                    cl.s.send_json(&json!({"unsubscribe": {"transactionId": tid}})).await;
                    // the answer: an ack with the same id (events of the subscription may still be in flight before it)
                    let deadline = tokio::time::Instant::now() + Duration::from_secs(20);
                    loop {
                        let left = deadline.saturating_duration_since(tokio::time::Instant::now());
                        match cl.s.recv(left).await {
                            Recv::Msg(m) => {
                                let kt = kind_and_tid(&m);
                                if matches!(&kt, Some((k, t)) if *t == tid && (k == "ack" || k == "err")) {
                                    if ok_kind(&m) != "ack" {
                                        let step = self.step;
                                        return Err(Failure::new("c03w.answer", "unsubscribe acknowledged", m.to_string()).at(step));
                                    }
                                    break;
                                }
                                cl.take(m)?;
                            }
                            Recv::Timeout => return Err(timeout("answer to unsubscribe")),
                            Recv::Closed => return Err(Failure::new("c03w.closed", "an answer", "closed")),
                            Recv::Garbage(l) => return Err(Failure::new("c03w.garbage", "JSON lines", l)),
                        }
                    }
                    self.world.subs.retain(|s| !(s.client == me && s.tid == tid));
                    // whatever was in flight belongs to requests that were settled before: nothing may be pending
                    if let Some(s) = cl.subs.get_mut(&tid) {
                        s.alive = false;
                    }
                }
            }
            SOp::End { .. } => {
                let cl = self.clients[c].take().expect("open");
                drop(cl);
                self.world.subs.retain(|s| s.client != me);
                // the other sessions keep working; the model's session-end procedure has nothing to do
                // here (no registrations, no locks), its $SYS bookkeeping is not observed by this part
                self.rep.counters.push(("subscriber_sessions_ended", 1));
            }
        }
        self.settle(&fx).await
    }
}

async fn drive(case: &SubCase, ws: &WireServer, port: u16) -> Result<CaseReport, Failure> {
    let mut clients = vec![];
    for tcp in &case.tcp {
        let s = if *tcp { Session::connect_tcp(port, false).await } else { Session::connect(&ws.sock).await }
            .map_err(|e| Failure::new("c03w.connect", "the server accepts the connection", e).sig(json!({"obs": "timeout"})))?;
        clients.push(Some(Cl { s, tid: 0, subs: BTreeMap::new(), live: vec![] }));
    }
    let mut run = Run {
        world: World::new(),
        clients,
        step: 0,
        rep: CaseReport::default(),
        events_checked: 0,
        snapshots: 0,
        subs_with_events: Default::default(),
        silent_checked: 0,
    };
    for (i, op) in case.ops.iter().enumerate() {
        run.step = i + 1;
        run.op(op).await?;
    }
    // late duplicates: after a pause in which nothing is requested nothing may arrive
    tokio::time::sleep(Duration::from_millis(20)).await;
    run.step += 1;
    run.settle(&Effects::default()).await?;
    let mut rep = run.rep;
    rep.counters.push(("events_checked", run.events_checked));
    rep.counters.push(("snapshots_checked", run.snapshots));
    rep.counters.push(("ended_subscriptions_checked_for_silence", run.silent_checked));
    if run.subs_with_events.len() >= 2 {
        rep.classes.push("two_or_more_subscriptions_received_events");
    }
    if run.silent_checked > 0 {
        rep.classes.push("has_ended_subscription");
    }
    if case.tcp.iter().any(|t| *t) {
        rep.classes.push("has_tcp_session");
    }
    rep.nontrivial = run.subs_with_events.len() >= 2 && run.events_checked >= 4;
    Ok(rep)
}

async fn run_case(case: &SubCase) -> Result<CaseReport, Failure> {
    let panics_before = crate::util::panic_count();
    let port = crate::server::free_port();
    let ws = WireServer::start("C03", |c| {
        c.tcp_endpoint = Some(worterbuch::Endpoint { tls: false, bind_addr: [127, 0, 0, 1].into(), port });
        c.tcp_disabled = false;
    })
    .await;
    let Ok(ws) = ws else { return Ok(CaseReport { inconclusive: true, ..Default::default() }) };
    let mut up = false;
    for _ in 0..3000 {
        if tokio::net::TcpStream::connect(("127.0.0.1", port)).await.is_ok() {
            up = true;
            break;
        }
        tokio::time::sleep(Duration::from_millis(1)).await;
    }
    if !up || ws.server.is_finished() {
        ws.stop().await.ok();
        return Ok(CaseReport { inconclusive: true, ..Default::default() });
    }
    let res = drive(case, &ws, port).await;
    let crashed = ws.server.is_finished();
    let stop = ws.stop().await;
    if crate::util::panic_count() != panics_before {
        let msg = crate::util::last_panic().unwrap_or_default();
        return Err(Failure::new("c03w.panic", "no task of the server panics", &msg).sig(json!({"obs": "c03w.panic"})));
    }
    match res {
        Ok(r) => {
            if crashed || stop.is_err() {
                return Err(Failure::new("c03w.server_down", "the server keeps running and stops cleanly", format!("{stop:?}")));
            }
            Ok(r)
        }
        Err(f) if f.signature.get("obs").and_then(|o| o.as_str()) == Some("timeout") && !crashed => Ok(CaseReport { inconclusive: true, ..Default::default() }),
        Err(f) => Err(f),
    }
}

pub fn check_case(case: &SubCase) -> Result<CaseReport, Failure> {
    block_on(run_case(case))
}

fn sop() -> BoxedStrategy<SOp> {
    let c = || 0..3u8;
    prop_oneof![
        6 => (c(), any::<u16>(), any::<u8>()).prop_map(|(c, key, value)| SOp::Set { c, key, value }),
        2 => (c(), any::<u16>(), any::<u8>()).prop_map(|(c, key, value)| SOp::CSet { c, key, value }),
        2 => (c(), any::<u16>(), any::<u8>()).prop_map(|(c, key, value)| SOp::Publish { c, key, value }),
        3 => (c(), any::<u16>()).prop_map(|(c, key)| SOp::Delete { c, key }),
        2 => (c(), any::<u16>()).prop_map(|(c, pattern)| SOp::PDelete { c, pattern }),
        3 => (c(), any::<u16>(), any::<bool>(), any::<bool>()).prop_map(|(c, key, unique, live_only)| SOp::Subscribe { c, key, unique, live_only }),
        4 => (c(), any::<u16>(), any::<bool>(), any::<bool>()).prop_map(|(c, pattern, unique, live_only)| SOp::PSubscribe { c, pattern, unique, live_only }),
        2 => (c(), any::<u16>()).prop_map(|(c, idx)| SOp::Unsubscribe { c, idx }),
        1 => c().prop_map(|c| SOp::End { c }),
    ]
    .boxed()
}

pub fn case(max_ops: usize) -> BoxedStrategy<SubCase> {
    (proptest::collection::vec(any::<bool>(), 2..=3), proptest::collection::vec(sop(), 1..=max_ops))
        .prop_map(|(tcp, ops)| SubCase { tcp, ops })
        .boxed()
}

pub fn part(check: &mut Check, cfg: &RunCfg) {
    let n = cfg.cases(300, 300_000);
    let max_ops = cfg.tier.pick(30, 60);
    let (agg, v) = run_prop(cfg, "wire", n, || case(max_ops), check_case);
    check.add_part(
        "wire",
        "whole server in process with a TCP and a unix-socket endpoint; 2-3 socket sessions set/cset/publish/delete/pdelete keys of a colliding pool and subscribe / psubscribe (all unique x live-only combinations, valid and invalid patterns) / unsubscribe / leave; after every request each subscription must receive exactly the snapshot and events the reference model predicts (the harness waits for the predicted number while the session keeps making answered round trips, then compares the per-key sequences), ended subscriptions must stay silent, and after a final pause nothing more may arrive; non-trivial = at least two subscriptions received events and at least 4 events were compared; distinct = case",
        false,
        agg,
    );
    if let Some(v) = v {
        check.violate("wire", &v.case, v.failure);
    }
}
