//! C19, votes of different rounds: in every election round fewer peers vote than the quorum needs,
//! but over the rounds of a run enough distinct peers vote. A node that keeps votes from one round
//! to a later one takes the leader role; a correct one never does.
//!
//! Black box and wall clock, so the scripts keep a whole silent round between two rounds with votes:
//! a vote can only be taken for one of a later voting round if the node does not read its socket for
//! an entire round (>= 1.2 s with the election timeout used here) while still running its timers.
//! A leader start is reported only if it shows in three runs of the same script.

use super::c19::{Orchestrator, free_udp_port, orchestrator_binary};
use crate::evidence::Check;
use crate::util::{CaseReport, Failure, RunCfg, block_on, run_prop, scratch_dir, verif_root};
use proptest::prelude::*;
use serde::{Deserialize, Serialize};
use serde_json::{Value, json};
use std::os::unix::process::CommandExt;
use std::process::{Command, Stdio};
use std::sync::{Arc, Mutex};
use std::time::{Duration, Instant};
use tokio::net::UdpSocket;

const TIMEOUT_MS: u64 = 400;

#[derive(Clone, Debug, Serialize, Deserialize)]
pub struct RoundsCase {
    /// per peer: the (1-based, odd) vote request of the node it answers with a vote; None = silent
    pub votes_in_round: Vec<Option<u8>>,
    /// votes sent per answered request (duplicates)
    pub copies: u8,
    /// vote requests to wait for before the run ends
    pub rounds: u8,
}

struct Outcome {
    leader_line: Option<String>,
    requests_seen: u64,
    votes_sent: u64,
}

async fn run_once(case: &RoundsCase) -> Result<Outcome, Failure> {
    thread_local! {
        static DIR: std::path::PathBuf = scratch_dir("C19").join(format!("rounds-{:?}", std::thread::current().id()).replace(['(', ')'], ""));
    }
    let dir = crate::persist::fresh_dir(&DIR.with(|d| d.clone()), "case");
    let n_peers = case.votes_in_round.len();
    let mut sockets = vec![];
    for _ in 0..n_peers {
        let s = UdpSocket::bind("127.0.0.1:0").await.map_err(|e| Failure::new("c19r.socket", "bind", e.to_string()))?;
        sockets.push(Arc::new(s));
    }
    let node_port = free_udp_port();
    let node_addr: std::net::SocketAddr = format!("127.0.0.1:{node_port}").parse().expect("addr");
    let mut nodes = vec![json!({"nodeId": "n0", "address": "127.0.0.1", "raftPort": node_port, "syncPort": 7000, "priority": 0})];
    for (i, s) in sockets.iter().enumerate() {
        let port = s.local_addr().map(|a| a.port()).unwrap_or(0);
        nodes.push(json!({"nodeId": format!("p{i}"), "address": "127.0.0.1", "raftPort": port, "syncPort": 7100 + i}));
    }
    let cfg_path = dir.join("config.yaml");
    std::fs::write(&cfg_path, json!({"nodes": nodes}).to_string()).map_err(|e| Failure::new("c19r.fs", "write config", e.to_string()))?;
    let log_path = dir.join("stub.log");
    std::fs::write(&log_path, "").ok();
    let data_dir = dir.join("data");
    std::fs::create_dir_all(&data_dir).ok();
    let mut cmd = Command::new(orchestrator_binary());
    cmd.arg("n0")
        .arg("-c")
        .arg(&cfg_path)
        .arg("-t")
        .arg(TIMEOUT_MS.to_string())
        .arg("-H")
        .arg("50")
        .arg("-w")
        .arg(verif_root().join("stub/worterbuch-stub.sh"))
        .arg("--stats-port")
        .arg(crate::server::free_port().to_string())
        .arg("--data-dir")
        .arg(&data_dir)
        .env("WBVERIF_STUB_LOG", &log_path)
        .env_remove("RUST_LOG")
        .stdin(Stdio::null())
        .stdout(Stdio::null())
        .stderr(Stdio::null());
    let debug = std::env::var("VERIF_DEBUG").is_ok();
    if debug {
        let keep = std::path::PathBuf::from(format!("/tmp/c19r-{}-{:?}.log", std::process::id(), std::thread::current().id()).replace(['(', ')'], ""));
        if let Ok(f) = std::fs::File::create(&keep) {
            cmd.env("RUST_LOG", "info").stdout(f.try_clone().expect("clone")).stderr(f);
        }
    }
    unsafe {
        cmd.pre_exec(|| {
            libc::setpgid(0, 0);
            libc::prctl(libc::PR_SET_PDEATHSIG, libc::SIGKILL);
            Ok(())
        });
    }
    let child = cmd.spawn().map_err(|e| Failure::new("c19r.spawn", "the orchestrator binary starts", e.to_string()).sig(json!({"obs": "timeout"})))?;
    let _orch = Orchestrator { child };

    // (max number of vote requests any peer has seen, votes sent)
    let shared = Arc::new(Mutex::new((0u64, 0u64)));
    let mut tasks = vec![];
    for (i, round) in case.votes_in_round.iter().enumerate() {
        let sock = sockets[i].clone();
        let shared = shared.clone();
        let round = *round;
        let copies = case.copies.max(1);
        let id = format!("p{i}");
        tasks.push(tokio::spawn(async move {
            let mut buf = [0u8; 65507];
            let mut seen = 0u64;
            loop {
                let Ok((len, _)) = sock.recv_from(&mut buf).await else { break };
                let Ok(msg) = serde_json::from_slice::<Value>(&buf[..len]) else { continue };
                if msg["vote"]["request"]["nodeId"] == json!("n0") {
                    seen += 1;
                    {
                        let mut sh = shared.lock().expect("lock");
                        sh.0 = sh.0.max(seen);
                    }
                    if round.map(|r| r as u64) == Some(seen) {
                        for _ in 0..copies {
                            shared.lock().expect("lock").1 += 1;
                            sock.send_to(json!({"vote": {"response": {"nodeId": id}}}).to_string().as_bytes(), node_addr).await.ok();
                        }
                    }
                }
            }
        }));
    }
    let deadline = Instant::now() + Duration::from_secs(20);
    let mut leader_line = None;
    loop {
        tokio::time::sleep(Duration::from_millis(10)).await;
        let log = std::fs::read_to_string(&log_path).unwrap_or_default();
        if let Some(l) = log.lines().find(|l| l.contains("--leader ") || l.ends_with("--leader")) {
            leader_line = Some(l.to_owned());
            break;
        }
        let seen = shared.lock().expect("lock").0;
        if seen >= case.rounds as u64 {
            // let the last round's collection window pass
            tokio::time::sleep(Duration::from_millis(TIMEOUT_MS + 100)).await;
            let log = std::fs::read_to_string(&log_path).unwrap_or_default();
            leader_line = log.lines().find(|l| l.contains("--leader ") || l.ends_with("--leader")).map(|l| l.to_owned());
            break;
        }
        if Instant::now() > deadline {
            break;
        }
    }
    for t in tasks {
        t.abort();
    }
    let (requests_seen, votes_sent) = *shared.lock().expect("lock");
    if debug && leader_line.is_some() {
        let keep = format!("/tmp/c19r-{}-{:?}.log", std::process::id(), std::thread::current().id()).replace(['(', ')'], "");
        let copy = format!("{keep}.leader-{}", votes_sent);
        std::fs::copy(&keep, &copy).ok();
        eprintln!("c19r: leader start in case {} (requests seen {requests_seen}, votes sent {votes_sent}); orchestrator log: {copy}", serde_json::to_string(case).unwrap_or_default());
    }
    Ok(Outcome { leader_line, requests_seen, votes_sent })
}

async fn run_case(case: &RoundsCase) -> Result<CaseReport, Failure> {
    let n_nodes = case.votes_in_round.len() + 1;
    let quorum = n_nodes / 2 + 1;
    let first = run_once(case).await?;
    let mut rep = CaseReport::default();
    if first.requests_seen < case.rounds as u64 && first.leader_line.is_none() {
        // the node did not get through its rounds within the budget
        rep.inconclusive = true;
        return Ok(rep);
    }
    if let Some(line) = &first.leader_line {
        // a start in leader mode: decisive only if it shows every time
        let mut lines = vec![line.clone()];
        for _ in 0..2 {
            match run_once(case).await?.leader_line {
                Some(l) => lines.push(l),
                None => {
                    rep.inconclusive = true;
                    rep.counters.push(("leader_start_not_reproduced", 1));
                    return Ok(rep);
                }
            }
        }
        return Err(Failure::new(
            "c19r.leader_with_votes_of_different_rounds",
            format!("no start in leader mode: quorum {quorum} of {n_nodes} nodes needs {} peer votes in one round, and in no round (nor in two adjacent rounds together) that many peers vote", quorum - 1),
            format!("in 3 of 3 runs the stub was started in leader mode, e.g. '{}'", lines[0]),
        )
        .sig(json!({"obs": "c19r.leader_with_votes_of_different_rounds"})));
    }
    let voting_rounds: std::collections::BTreeSet<u8> = case.votes_in_round.iter().flatten().filter(|r| **r <= case.rounds).copied().collect();
    let distinct_voters = case.votes_in_round.iter().flatten().filter(|r| **r <= case.rounds).count();
    rep.counters.push(("vote_requests_seen", first.requests_seen));
    rep.counters.push(("votes_sent", first.votes_sent));
    if voting_rounds.len() >= 2 {
        rep.classes.push("votes_in_two_or_more_rounds");
    }
    if distinct_voters >= quorum - 1 {
        rep.classes.push("distinct_voters_over_all_rounds_reach_the_quorum");
    }
    rep.nontrivial = voting_rounds.len() >= 2 && distinct_voters >= quorum - 1;
    Ok(rep)
}

pub fn check_case(case: &RoundsCase) -> Result<CaseReport, Failure> {
    match block_on(run_case(case)) {
        Err(f) if f.signature.get("obs").and_then(|o| o.as_str()) == Some("timeout") => Ok(CaseReport { inconclusive: true, ..Default::default() }),
        other => other,
    }
}

fn case() -> BoxedStrategy<RoundsCase> {
    // 4..=6 nodes; every peer votes in one odd round (1, 3, 5) or never; fewer than quorum-1 voters per round
    (3..=5usize, proptest::collection::vec(prop_oneof![2 => Just(Some(1u8)), 2 => Just(Some(3u8)), 1 => Just(Some(5u8)), 1 => Just(None)], 5), prop_oneof![3 => Just(1u8), 1 => Just(3u8)])
        .prop_map(|(n_peers, rounds, copies)| {
            let quorum = (n_peers + 1) / 2 + 1;
            let mut votes_in_round: Vec<Option<u8>> = vec![];
            let mut per_round = std::collections::BTreeMap::<u8, usize>::new();
            for r in rounds.into_iter().take(n_peers) {
                match r {
                    Some(r) if per_round.get(&r).copied().unwrap_or(0) + 1 < quorum - 1 => {
                        *per_round.entry(r).or_default() += 1;
                        votes_in_round.push(Some(r));
                    }
                    _ => votes_in_round.push(None),
                }
            }
            let last = votes_in_round.iter().flatten().copied().max().unwrap_or(1);
            RoundsCase { votes_in_round, copies, rounds: last.min(3) }
        })
        .boxed()
}

pub fn part(check: &mut Check, cfg: &RunCfg) {
    let n = match cfg.tier {
        crate::util::Tier::Quick => 32,
        crate::util::Tier::Thorough => 1_000,
    };
    let n = ((n as f64) * cfg.scale).max(1.0) as u64;
    let (agg, v) = run_prop(cfg, "rounds", n, case, check_case);
    check.add_part(
        "rounds",
        "the real orchestrator (-t 400) as one node of a 4-6 node cluster with default quorum; every scripted peer answers exactly one of the node's vote requests (the 1st or the 3rd; the 2nd round stays silent) with 1 or 3 votes, fewer peers per round than the quorum needs, while over the whole run enough distinct peers vote; oracle: the stub is never started in leader mode (reported only if it is in 3 of 3 runs of the same script; a run whose node does not get through its rounds within 20 s is inconclusive); non-trivial = votes in two rounds and the distinct voters of all rounds together reach the quorum; distinct = case",
        false,
        agg,
    );
    if let Some(v) = v {
        check.violate("rounds", &v.case, v.failure);
    }
}
