//! C19, votes of different rounds: in every election round fewer peers vote than the quorum needs,
//! but over the rounds of a run enough distinct peers vote. A node that keeps votes from one round
//! to a later one takes the leader role; a correct one never does.
//!
//! Black box and wall clock, so the scripts keep a whole silent round between two rounds with votes:
//! a vote can only be taken for one of a later voting round if the node does not read its socket for
//! an entire round (>= 1.2 s with the election timeout used here) while still running its timers.
//! A leader start is reported only if it shows in three runs of the same script.

use super::c19::{Orchestrator, free_udp_port, orchestrator_binary};
use crate::evidence::Check;
use crate::util::{CaseReport, Failure, RunCfg, block_on, run_prop, scratch_dir, verif_root};
use proptest::prelude::*;
use serde::{Deserialize, Serialize};
use serde_json::{Value, json};
use std::os::unix::process::CommandExt;
use std::process::{Command, Stdio};
use std::sync::{Arc, Mutex};
use std::time::{Duration, Instant};
use tokio::net::UdpSocket;

const TIMEOUT_MS: u64 = 400;

#[derive(Clone, Debug, Serialize, Deserialize)]
pub struct RoundsCase {
    /// per peer: the (1-based, odd) vote request of the node it answers with a vote; None = silent
    pub votes_in_round: Vec<Option<u8>>,
    /// votes sent per answered request (duplicates)
    pub copies: u8,
    /// vote requests to wait for before the run ends
    pub rounds: u8,
    /// the cluster grows at run time: the config file first lists only this many peers, the others
    /// are added right after the start (no explicit quorum, so the majority grows with it). The voters
    /// (`votes_in_round` = Some) then answer every vote request they see once one of the added peers
    /// has been asked for its vote, i.e. once the node works with the new configuration.
    #[serde(default)]
    pub initial_peers: Option<u8>,
}

struct Outcome {
    leader_line: Option<String>,
    requests_seen: u64,
    votes_sent: u64,
    /// the script ran to its end (or a leader start ended it)
    completed: bool,
}

async fn run_once(case: &RoundsCase) -> Result<Outcome, Failure> {
    thread_local! {
        static DIR: std::path::PathBuf = scratch_dir("C19").join(format!("rounds-{:?}", std::thread::current().id()).replace(['(', ')'], ""));
    }
    let dir = crate::persist::fresh_dir(&DIR.with(|d| d.clone()), "case");
    let n_peers = case.votes_in_round.len();
    let mut sockets = vec![];
    for _ in 0..n_peers {
        let s = UdpSocket::bind("127.0.0.1:0").await.map_err(|e| Failure::new("c19r.socket", "bind", e.to_string()))?;
        sockets.push(Arc::new(s));
    }
    let node_port = free_udp_port();
    let node_addr: std::net::SocketAddr = format!("127.0.0.1:{node_port}").parse().expect("addr");
    let mut nodes = vec![json!({"nodeId": "n0", "address": "127.0.0.1", "raftPort": node_port, "syncPort": 7000, "priority": 0})];
    for (i, s) in sockets.iter().enumerate() {
        let port = s.local_addr().map(|a| a.port()).unwrap_or(0);
        nodes.push(json!({"nodeId": format!("p{i}"), "address": "127.0.0.1", "raftPort": port, "syncPort": 7100 + i}));
    }
    let cfg_path = dir.join("config.yaml");
    let initial: Vec<Value> = match case.initial_peers {
        Some(k) => nodes.iter().take(k as usize + 1).cloned().collect(),
        None => nodes.clone(),
    };
    std::fs::write(&cfg_path, json!({"nodes": initial}).to_string()).map_err(|e| Failure::new("c19r.fs", "write config", e.to_string()))?;
    let log_path = dir.join("stub.log");
    std::fs::write(&log_path, "").ok();
    let data_dir = dir.join("data");
    std::fs::create_dir_all(&data_dir).ok();
    let mut cmd = Command::new(orchestrator_binary());
    cmd.arg("n0")
        .arg("-c")
        .arg(&cfg_path)
        .arg("-t")
        .arg(TIMEOUT_MS.to_string())
        .arg("-H")
        .arg("50")
        .arg("-w")
        .arg(verif_root().join("stub/worterbuch-stub.sh"))
        .arg("--stats-port")
        .arg(crate::server::free_port().to_string())
        .arg("--data-dir")
        .arg(&data_dir)
        .arg("--config-scan-interval")
        .arg("1")
        .env("WBVERIF_STUB_LOG", &log_path)
        .env_remove("RUST_LOG")
        .stdin(Stdio::null())
        .stdout(Stdio::null())
        .stderr(Stdio::null());
    let debug = std::env::var("VERIF_DEBUG").is_ok();
    if debug {
        let keep = std::path::PathBuf::from(format!("/tmp/c19r-{}-{:?}.log", std::process::id(), std::thread::current().id()).replace(['(', ')'], ""));
        if let Ok(f) = std::fs::File::create(&keep) {
            cmd.env("RUST_LOG", "info").stdout(f.try_clone().expect("clone")).stderr(f);
        }
    }
    unsafe {
        cmd.pre_exec(|| {
            libc::setpgid(0, 0);
            libc::prctl(libc::PR_SET_PDEATHSIG, libc::SIGKILL);
            Ok(())
        });
    }
    let child = cmd.spawn().map_err(|e| Failure::new("c19r.spawn", "the orchestrator binary starts", e.to_string()).sig(json!({"obs": "timeout"})))?;
    let _orch = Orchestrator { child };
    // the cluster grows once the node has demonstrably started with the initial configuration
    // (one of the initial peers has seen a vote request)
    let mut rewritten = case.initial_peers.is_none();
    // one of the added peers has been asked for its vote: the node works with the grown configuration
    let grown = Arc::new(std::sync::atomic::AtomicBool::new(false));
    // rounds in which a voter voted after the growth
    let votes_after_growth = Arc::new(std::sync::atomic::AtomicU64::new(0));

    // (max number of vote requests any peer has seen, votes sent)
    let shared = Arc::new(Mutex::new((0u64, 0u64)));
    let mut tasks = vec![];
    for (i, round) in case.votes_in_round.iter().enumerate() {
        let sock = sockets[i].clone();
        let shared = shared.clone();
        let round = *round;
        let copies = case.copies.max(1);
        let id = format!("p{i}");
        let initial_peers = case.initial_peers;
        let grown = grown.clone();
        let votes_after_growth = votes_after_growth.clone();
        tasks.push(tokio::spawn(async move {
            let mut buf = [0u8; 65507];
            let mut seen = 0u64;
            loop {
                let Ok((len, _)) = sock.recv_from(&mut buf).await else { break };
                let Ok(msg) = serde_json::from_slice::<Value>(&buf[..len]) else { continue };
                if msg["vote"]["request"]["nodeId"] == json!("n0") {
                    seen += 1;
                    {
                        let mut sh = shared.lock().expect("lock");
                        sh.0 = sh.0.max(seen);
                    }
                    if let Some(k) = initial_peers {
                        use std::sync::atomic::Ordering::SeqCst;
                        if i >= k as usize {
                            grown.store(true, SeqCst);
                        } else if round.is_some() && grown.load(SeqCst) {
                            votes_after_growth.fetch_add(1, SeqCst);
                            for _ in 0..copies {
                                shared.lock().expect("lock").1 += 1;
                                sock.send_to(json!({"vote": {"response": {"nodeId": id}}}).to_string().as_bytes(), node_addr).await.ok();
                            }
                        }
                        continue;
                    }
                    if round.map(|r| r as u64) == Some(seen) {
                        for _ in 0..copies {
                            shared.lock().expect("lock").1 += 1;
                            sock.send_to(json!({"vote": {"response": {"nodeId": id}}}).to_string().as_bytes(), node_addr).await.ok();
                        }
                    }
                }
            }
        }));
    }
    let deadline = Instant::now() + Duration::from_secs(25);
    let mut leader_line = None;
    let mut completed = false;
    loop {
        tokio::time::sleep(Duration::from_millis(10)).await;
        if !rewritten && shared.lock().expect("lock").0 >= 1 {
            // the complete node list replaces the initial one (atomically)
            let tmp = dir.join("config.yaml.new");
            std::fs::write(&tmp, json!({"nodes": nodes}).to_string()).map_err(|e| Failure::new("c19r.fs", "write config", e.to_string()))?;
            std::fs::rename(&tmp, &cfg_path).map_err(|e| Failure::new("c19r.fs", "replace config", e.to_string()))?;
            rewritten = true;
        }
        let log = std::fs::read_to_string(&log_path).unwrap_or_default();
        if let Some(l) = log.lines().find(|l| l.contains("--leader ") || l.ends_with("--leader")) {
            leader_line = Some(l.to_owned());
            break;
        }
        let seen = shared.lock().expect("lock").0;
        let done = match case.initial_peers {
            // the voters have voted in two rounds since the growth
            Some(_) => votes_after_growth.load(std::sync::atomic::Ordering::SeqCst) >= 2 * case.votes_in_round.iter().flatten().count().max(1) as u64,
            None => seen >= case.rounds as u64,
        };
        if done {
            completed = true;
            // let the last round's collection window pass
            tokio::time::sleep(Duration::from_millis(TIMEOUT_MS + 100)).await;
            let log = std::fs::read_to_string(&log_path).unwrap_or_default();
            leader_line = log.lines().find(|l| l.contains("--leader ") || l.ends_with("--leader")).map(|l| l.to_owned());
            break;
        }
        if Instant::now() > deadline {
            break;
        }
    }
    for t in tasks {
        t.abort();
    }
    let (requests_seen, votes_sent) = *shared.lock().expect("lock");
    if debug && leader_line.is_some() {
        let keep = format!("/tmp/c19r-{}-{:?}.log", std::process::id(), std::thread::current().id()).replace(['(', ')'], "");
        let copy = format!("{keep}.leader-{}", votes_sent);
        std::fs::copy(&keep, &copy).ok();
        eprintln!("c19r: leader start in case {} (requests seen {requests_seen}, votes sent {votes_sent}); orchestrator log: {copy}", serde_json::to_string(case).unwrap_or_default());
    }
    Ok(Outcome { completed: completed || leader_line.is_some(), leader_line, requests_seen, votes_sent })
}

async fn run_case(case: &RoundsCase) -> Result<CaseReport, Failure> {
    let n_nodes = case.votes_in_round.len() + 1;
    let quorum = n_nodes / 2 + 1;
    let first = run_once(case).await?;
    let mut rep = CaseReport::default();
    if !first.completed {
        // the node did not get through its rounds within the budget
        rep.inconclusive = true;
        return Ok(rep);
    }
    if let Some(line) = &first.leader_line {
        // a start in leader mode: decisive only if it shows every time
        let mut lines = vec![line.clone()];
        for _ in 0..2 {
            match run_once(case).await?.leader_line {
                Some(l) => lines.push(l),
                None => {
                    rep.inconclusive = true;
                    rep.counters.push(("leader_start_not_reproduced", 1));
                    return Ok(rep);
                }
            }
        }
        if let Some(k) = case.initial_peers {
            let voters = case.votes_in_round.iter().flatten().count();
            return Err(Failure::new(
                "c19r.leader_with_the_majority_of_the_old_configuration",
                format!("no start in leader mode: the cluster has grown from {} to {n_nodes} nodes (no explicit quorum), so the majority is {quorum} and {} peer votes are needed; only {voters} peer(s) vote, and only after the node asked an added peer for its vote", k as usize + 1, quorum - 1),
                format!("in 3 of 3 runs the stub was started in leader mode, e.g. '{}'", lines[0]),
            )
            .sig(json!({"obs": "c19r.leader_with_the_majority_of_the_old_configuration"})));
        }
        return Err(Failure::new(
            "c19r.leader_with_votes_of_different_rounds",
            format!("no start in leader mode: quorum {quorum} of {n_nodes} nodes needs {} peer votes in one round, and in no round (nor in two adjacent rounds together) that many peers vote", quorum - 1),
            format!("in 3 of 3 runs the stub was started in leader mode, e.g. '{}'", lines[0]),
        )
        .sig(json!({"obs": "c19r.leader_with_votes_of_different_rounds"})));
    }
    if case.initial_peers.is_some() {
        rep.counters.push(("vote_requests_seen", first.requests_seen));
        rep.counters.push(("votes_sent", first.votes_sent));
        rep.classes.push("cluster_grown_at_run_time");
        rep.nontrivial = first.votes_sent > 0;
        return Ok(rep);
    }
    let voting_rounds: std::collections::BTreeSet<u8> = case.votes_in_round.iter().flatten().filter(|r| **r <= case.rounds).copied().collect();
    let distinct_voters = case.votes_in_round.iter().flatten().filter(|r| **r <= case.rounds).count();
    rep.counters.push(("vote_requests_seen", first.requests_seen));
    rep.counters.push(("votes_sent", first.votes_sent));
    if voting_rounds.len() >= 2 {
        rep.classes.push("votes_in_two_or_more_rounds");
    }
    if distinct_voters >= quorum - 1 {
        rep.classes.push("distinct_voters_over_all_rounds_reach_the_quorum");
    }
    rep.nontrivial = voting_rounds.len() >= 2 && distinct_voters >= quorum - 1;
    Ok(rep)
}

pub fn check_case(case: &RoundsCase) -> Result<CaseReport, Failure> {
    match block_on(run_case(case)) {
        Err(f) if f.signature.get("obs").and_then(|o| o.as_str()) == Some("timeout") => Ok(CaseReport { inconclusive: true, ..Default::default() }),
        other => other,
    }
}

fn case() -> BoxedStrategy<RoundsCase> {
    // 4..=6 nodes; every peer votes in one odd round (1, 3, 5) or never; fewer than quorum-1 voters per round
    (3..=5usize, proptest::collection::vec(prop_oneof![2 => Just(Some(1u8)), 2 => Just(Some(3u8)), 1 => Just(Some(5u8)), 1 => Just(None)], 5), prop_oneof![3 => Just(1u8), 1 => Just(3u8)])
        .prop_map(|(n_peers, rounds, copies)| {
            let quorum = (n_peers + 1) / 2 + 1;
            let mut votes_in_round: Vec<Option<u8>> = vec![];
            let mut per_round = std::collections::BTreeMap::<u8, usize>::new();
            for r in rounds.into_iter().take(n_peers) {
                match r {
                    Some(r) if per_round.get(&r).copied().unwrap_or(0) + 1 < quorum - 1 => {
                        *per_round.entry(r).or_default() += 1;
                        votes_in_round.push(Some(r));
                    }
                    _ => votes_in_round.push(None),
                }
            }
            let last = votes_in_round.iter().flatten().copied().max().unwrap_or(1);
            RoundsCase { votes_in_round, copies, rounds: last.min(3), initial_peers: None }
        })
        .boxed()
}

/// the cluster grows at run time from `old` to `new` peers; `voters` old peers vote once the node
/// works with the grown configuration: enough for the old majority, too few for the new one
fn grow_case() -> BoxedStrategy<RoundsCase> {
    prop_oneof![
        // (old peers, new peers, voters): 3 -> 5 nodes (majority 2 -> 3), 3 -> 6 (2 -> 4), 5 -> 7 (3 -> 4), 2 -> 4 (2 -> 3), 3 -> 4 (2 -> 3)
        Just((2u8, 4usize, 1usize)),
        Just((2u8, 5usize, 1usize)),
        Just((2u8, 5usize, 2usize)),
        Just((4u8, 6usize, 2usize)),
        Just((1u8, 3usize, 1usize)),
        Just((2u8, 3usize, 1usize)),
    ]
    .prop_flat_map(|(old, new, voters)| (Just((old, new, voters)), prop_oneof![3 => Just(1u8), 1 => Just(3u8)]))
    .prop_map(|((old, new, voters), copies)| {
        let mut votes_in_round = vec![None; new];
        for v in votes_in_round.iter_mut().take(voters.min(old as usize)) {
            *v = Some(1);
        }
        RoundsCase { votes_in_round, copies, rounds: 0, initial_peers: Some(old) }
    })
    .boxed()
}

pub fn part(check: &mut Check, cfg: &RunCfg) {
    let n = match cfg.tier {
        crate::util::Tier::Quick => 32,
        crate::util::Tier::Thorough => 1_000,
    };
    let n = ((n as f64) * cfg.scale).max(1.0) as u64;
    let (agg, v) = run_prop(cfg, "rounds", n, || prop_oneof![2 => case(), 1 => grow_case()].boxed(), check_case);
    check.add_part(
        "rounds",
        "the real orchestrator (-t 400) as one node of a 4-6 node cluster with default quorum; every scripted peer answers exactly one of the node's vote requests (the 1st or the 3rd; the 2nd round stays silent) with 1 or 3 votes, fewer peers per round than the quorum needs, while over the whole run enough distinct peers vote; oracle: the stub is never started in leader mode (reported only if it is in 3 of 3 runs of the same script; a run whose node does not get through its rounds within 20 s is inconclusive); non-trivial = votes in two rounds and the distinct voters of all rounds together reach the quorum. A third of the cases instead let the cluster grow at run time (config file without explicit quorum rewritten from 2-5 to 4-7 nodes as soon as an initial peer has seen the node's first vote request, scan interval 1 s): old peers vote - enough for the old majority, too few for the new one - but only once the node has asked an added peer for its vote; same oracle (never a start in leader mode), non-trivial = a vote was sent after the growth; distinct = case",
        false,
        agg,
    );
    if let Some(v) = v {
        check.violate("rounds", &v.case, v.failure);
    }
}
