//! C13 Every request gets exactly one answer carrying its own transaction id.

use crate::evidence::{Check, KnownFindings};
use crate::jgen;
use crate::model::*;
use crate::util::{CaseReport, Failure, RunCfg, block_on, map_idx, run_prop};
use crate::wire::{Recv, Session, WireServer, kind_and_tid};
use proptest::prelude::*;
use serde::{Deserialize, Serialize};
use serde_json::{Value, json};
use std::collections::{BTreeMap, BTreeSet};
use std::time::Duration;

/// where a key / pattern of a request lives
#[derive(Clone, Debug, PartialEq, Serialize, Deserialize)]
pub enum K {
    /// below the session's private prefix: only this session touches it, so the answer is predictable
    Private(String),
    /// contended area shared by all sessions of the case: only the kind of the answer is checked
    Shared(String),
    /// verbatim (protected $SYS keys, empty key, wildcards in keys, misplaced #)
    Raw(String),
}

#[derive(Clone, Debug, PartialEq, Serialize, Deserialize)]
pub enum V {
    Current,
    Stale,
    Future,
    Zero,
}

#[derive(Clone, Debug, PartialEq, Serialize, Deserialize)]
pub enum Req {
    Get(K),
    CGet(K),
    PGet(K),
    Set(K, Value),
    CSet(K, Value, V),
    Publish(K, Value),
    SPubInit(K),
    SPub(u16, Value),
    Subscribe(K, bool, bool),
    PSubscribe(K, bool, bool),
    Unsubscribe(u16),
    Delete(K),
    PDelete(K, Option<bool>),
    Ls(Option<K>),
    PLs(Option<K>),
    SubscribeLs(Option<K>),
    UnsubscribeLs(u16),
    Lock(K),
    AcquireLock(K),
    ReleaseLock(K),
    Transform(K),
}

#[derive(Clone, Debug, PartialEq, Serialize, Deserialize)]
pub struct Script {
    pub v0: bool,
    pub reqs: Vec<Req>,
    /// transaction ids (made unique by the runner), non-monotonic, up to u64::MAX
    pub tids: Vec<u64>,
}

#[derive(Clone, Debug, PartialEq, Serialize, Deserialize)]
pub struct Case {
    pub sessions: Vec<Script>,
}

struct Sent {
    tid: u64,
    /// protocol name of the request
    kind: &'static str,
    /// allowed kinds of the terminal answer besides "err"
    ok_kind: &'static str,
    /// full expected answer (compared as JSON, lists as sets) if predictable
    exact: Option<Value>,
    /// expected error code if predictable
    err: Option<u64>,
    is_sub: bool,
}

fn resolve(k: &K, si: usize) -> String {
    match k {
        K::Private(r) => format!("p{si}/{r}"),
        K::Shared(r) => format!("shared/{r}"),
        K::Raw(r) => r.clone(),
    }
}

fn predictable(k: &K) -> bool {
    matches!(k, K::Private(_))
}

fn set_eq(a: &Value, b: &Value) -> bool {
    // compare two answers, treating arrays of key/value pairs and child lists as sets
    match (a, b) {
        (Value::Array(x), Value::Array(y)) => {
            x.len() == y.len() && x.iter().all(|e| y.iter().any(|f| set_eq(e, f))) && y.iter().all(|e| x.iter().any(|f| set_eq(e, f)))
        }
        (Value::Object(x), Value::Object(y)) => x.len() == y.len() && x.iter().all(|(k, v)| y.get(k).map(|w| set_eq(v, w)).unwrap_or(false)),
        _ => a == b,
    }
}

fn kvps_json(kvps: &[(String, Value)]) -> Value {
    Value::Array(kvps.iter().map(|(k, v)| json!({"key": k, "value": v})).collect())
}

/// build the lines of one session and the predicted answers
fn plan(script: &Script, si: usize) -> (Vec<String>, Vec<Sent>, u64) {
    let mut m = World::new();
    let me: Cid = 1;
    let mut fx = Effects::default();
    let mut used: BTreeSet<u64> = BTreeSet::new();
    let mut next_fresh = 1_000_000u64;
    let mut fresh = |want: u64, used: &mut BTreeSet<u64>| -> u64 {
        let mut t = want;
        while t == 0 || used.contains(&t) {
            next_fresh += 1;
            t = next_fresh;
        }
        used.insert(t);
        t
    };
    let mut lines = vec![];
    let mut sent: Vec<Sent> = vec![];
    let mut subs: Vec<u64> = vec![];
    let mut ls_subs: Vec<u64> = vec![];
    let mut streams: Vec<(u64, bool)> = vec![];
    let mut held: BTreeSet<String> = BTreeSet::new();
    for (i, r) in script.reqs.iter().enumerate() {
        let want = script.tids.get(i).copied().unwrap_or(i as u64 + 1);
        let mut tid = fresh(want, &mut used);
        let (kind, ok_kind, body, exact, err, is_sub): (&'static str, &'static str, Value, Option<Value>, Option<u64>, bool);
        match r {
            Req::Get(k) => {
                let key = resolve(k, si);
                let (ex, er) = if predictable(k) {
                    match m.get(&key) {
                        Some(e) => (Some(json!({"state": {"transactionId": tid, "value": e.value}})), None),
                        None => (None, Some(5)),
                    }
                } else {
                    (None, None)
                };
                (kind, ok_kind, body, exact, err, is_sub) = ("get", "state", json!({"transactionId": tid, "key": key}), ex, er, false);
            }
            Req::CGet(k) => {
                let key = resolve(k, si);
                let (ex, er) = if predictable(k) {
                    match m.get(&key) {
                        Some(e) => (Some(json!({"cState": {"transactionId": tid, "value": e.value, "version": e.version()}})), None),
                        None => (None, Some(5)),
                    }
                } else {
                    (None, None)
                };
                (kind, ok_kind, body, exact, err, is_sub) = ("cGet", "cState", json!({"transactionId": tid, "key": key}), ex, er, false);
            }
            Req::PGet(k) => {
                let p = resolve(k, si);
                let pat = parse_pattern(&p);
                let (ex, er) = if !pattern_valid(&pat) {
                    (None, Some(1))
                } else if predictable(k) {
                    (Some(json!({"pState": {"transactionId": tid, "requestPattern": p, "keyValuePairs": kvps_json(&m.pget(&pat))}})), None)
                } else {
                    (None, None)
                };
                (kind, ok_kind, body, exact, err, is_sub) = ("pGet", "pState", json!({"transactionId": tid, "requestPattern": p}), ex, er, false);
            }
            Req::Set(k, v) => {
                let key = resolve(k, si);
                let (ex, er) = if predictable(k) {
                    match m.set_verdict(&key, false) {
                        SetVerdict::Ok => {
                            m.apply_set(&key, v.clone(), me, &mut fx);
                            (Some(json!({"ack": {"transactionId": tid}})), None)
                        }
                        SetVerdict::CasProtected => (None, Some(17)),
                    }
                } else {
                    (None, None)
                };
                (kind, ok_kind, body, exact, err, is_sub) = ("set", "ack", json!({"transactionId": tid, "key": key, "value": v}), ex, er, false);
            }
            Req::CSet(k, v, ver) => {
                let key = resolve(k, si);
                let cur = m.get(&key).map(|e| e.version()).unwrap_or(0);
                let carried = match ver {
                    V::Current => cur,
                    V::Stale => cur.saturating_sub(1),
                    V::Future => cur + 1,
                    V::Zero => 0,
                };
                let (ex, er) = if predictable(k) {
                    match m.cset_verdict(&key, carried) {
                        CsetVerdict::Ok(_) => {
                            m.apply_cset(&key, v.clone(), carried, me, &mut fx);
                            (Some(json!({"ack": {"transactionId": tid}})), None)
                        }
                        CsetVerdict::VersionMismatch => (None, Some(18)),
                    }
                } else {
                    (None, None)
                };
                (kind, ok_kind, body, exact, err, is_sub) = ("cSet", "ack", json!({"transactionId": tid, "key": key, "value": v, "version": carried}), ex, er, false);
            }
            Req::Publish(k, v) => {
                let key = resolve(k, si);
                let ex = if predictable(k) { Some(json!({"ack": {"transactionId": tid}})) } else { None };
                (kind, ok_kind, body, exact, err, is_sub) = ("publish", "ack", json!({"transactionId": tid, "key": key, "value": v}), ex, None, false);
            }
            Req::SPubInit(k) => {
                let key = resolve(k, si);
                let ok = predictable(k);
                streams.push((tid, ok));
                let ex = if ok { Some(json!({"ack": {"transactionId": tid}})) } else { None };
                (kind, ok_kind, body, exact, err, is_sub) = ("sPubInit", "ack", json!({"transactionId": tid, "key": key}), ex, None, false);
            }
            Req::SPub(idx, v) => {
                // the transaction id of an sPub is the id of its stream
                used.remove(&tid);
                let (ex, er);
                if streams.is_empty() {
                    tid = fresh(want, &mut used);
                    ex = None;
                    er = Some(15);
                } else {
                    let (st, ok) = streams[map_idx(*idx, streams.len())];
                    tid = st;
                    ex = if ok { Some(json!({"ack": {"transactionId": tid}})) } else { None };
                    er = None;
                }
                (kind, ok_kind, body, exact, err, is_sub) = ("sPub", "ack", json!({"transactionId": tid, "value": v}), ex, er, false);
            }
            Req::Subscribe(k, unique, live) => {
                let key = resolve(k, si);
                let literal = !key.is_empty() && !has_wildcard(&parse_pattern(&key));
                let ex = if predictable(k) { Some(json!({"ack": {"transactionId": tid}})) } else { None };
                if literal || *live {
                    subs.push(tid);
                }
                (kind, ok_kind, body, exact, err, is_sub) = ("subscribe", "ack", json!({"transactionId": tid, "key": key, "unique": unique, "liveOnly": live}), ex, None, true);
            }
            Req::PSubscribe(k, unique, live) => {
                let p = resolve(k, si);
                let valid = pattern_valid(&parse_pattern(&p));
                let (ex, er) = if !valid {
                    (None, Some(1))
                } else if predictable(k) {
                    (Some(json!({"ack": {"transactionId": tid}})), None)
                } else {
                    (None, None)
                };
                if valid {
                    subs.push(tid);
                }
                (kind, ok_kind, body, exact, err, is_sub) = ("pSubscribe", "ack", json!({"transactionId": tid, "requestPattern": p, "unique": unique, "liveOnly": live}), ex, er, true);
            }
            Req::Unsubscribe(idx) => {
                let (target, er) = if subs.is_empty() {
                    (u64::MAX - 11, Some(6))
                } else {
                    let i = map_idx(*idx, subs.len());
                    let t = subs.remove(i);
                    (t, None)
                };
                // the unsubscribe request carries the id of the subscription it ends
                used.remove(&tid);
                tid = target;
                (kind, ok_kind, body, exact, err, is_sub) = ("unsubscribe", "ack", json!({"transactionId": tid}), None, er, false);
            }
            Req::Delete(k) => {
                let key = resolve(k, si);
                let (ex, er) = if predictable(k) {
                    match m.apply_delete(&key, me, &mut fx) {
                        Some(old) => (Some(json!({"state": {"transactionId": tid, "deleted": old}})), None),
                        None => (None, Some(5)),
                    }
                } else {
                    (None, None)
                };
                (kind, ok_kind, body, exact, err, is_sub) = ("delete", "state", json!({"transactionId": tid, "key": key}), ex, er, false);
            }
            Req::PDelete(k, quiet) => {
                let p = resolve(k, si);
                let pat = parse_pattern(&p);
                let (ex, er) = if !pattern_valid(&pat) {
                    (None, Some(1))
                } else if predictable(k) {
                    let del = m.apply_pdelete(&pat, me, &mut fx);
                    let shown = if quiet.unwrap_or(false) { vec![] } else { del };
                    (Some(json!({"pState": {"transactionId": tid, "requestPattern": p, "deleted": kvps_json(&shown)}})), None)
                } else {
                    (None, None)
                };
                (kind, ok_kind, body, exact, err, is_sub) = ("pDelete", "pState", json!({"transactionId": tid, "requestPattern": p, "quiet": quiet}), ex, er, false);
            }
            Req::Ls(parent) => {
                let p = parent.as_ref().map(|k| resolve(k, si));
                let (ex, er) = match (parent, &p) {
                    (Some(k), Some(pp)) if predictable(k) => match m.ls(&split(pp)) {
                        Some(ch) => (Some(json!({"lsState": {"transactionId": tid, "children": ch.into_iter().collect::<Vec<_>>()}})), None),
                        None => (None, Some(5)),
                    },
                    _ => (None, None),
                };
                (kind, ok_kind, body, exact, err, is_sub) = ("ls", "lsState", json!({"transactionId": tid, "parent": p}), ex, er, false);
            }
            Req::PLs(parent) => {
                let p = parent.as_ref().map(|k| resolve(k, si));
                let ex = match (parent, &p) {
                    (Some(k), Some(pp)) if predictable(k) && !pp.split('/').any(|s| s == "#") => {
                        Some(json!({"lsState": {"transactionId": tid, "children": m.pls(&parse_pattern(pp)).into_iter().collect::<Vec<_>>()}}))
                    }
                    _ => None,
                };
                (kind, ok_kind, body, exact, err, is_sub) = ("pLs", "lsState", json!({"transactionId": tid, "parentPattern": p}), ex, None, false);
            }
            Req::SubscribeLs(parent) => {
                let p = parent.as_ref().map(|k| resolve(k, si));
                ls_subs.push(tid);
                (kind, ok_kind, body, exact, err, is_sub) = ("subscribeLs", "ack", json!({"transactionId": tid, "parent": p}), Some(json!({"ack": {"transactionId": tid}})), None, true);
            }
            Req::UnsubscribeLs(idx) => {
                let (target, er) = if ls_subs.is_empty() {
                    (u64::MAX - 13, Some(6))
                } else {
                    let i = map_idx(*idx, ls_subs.len());
                    (ls_subs.remove(i), None)
                };
                used.remove(&tid);
                tid = target;
                (kind, ok_kind, body, exact, err, is_sub) = ("unsubscribeLs", "ack", json!({"transactionId": tid}), None, er, false);
            }
            Req::Lock(k) => {
                let key = resolve(k, si);
                let ex = if predictable(k) {
                    held.insert(key.clone());
                    Some(json!({"ack": {"transactionId": tid}}))
                } else {
                    None
                };
                (kind, ok_kind, body, exact, err, is_sub) = ("lock", "ack", json!({"transactionId": tid, "key": key}), ex, None, false);
            }
            Req::AcquireLock(k) => {
                let key = resolve(k, si);
                let ex = if predictable(k) {
                    held.insert(key.clone());
                    Some(json!({"ack": {"transactionId": tid}}))
                } else {
                    None
                };
                (kind, ok_kind, body, exact, err, is_sub) = ("acquireLock", "ack", json!({"transactionId": tid, "key": key}), ex, None, false);
            }
            Req::ReleaseLock(k) => {
                let key = resolve(k, si);
                let (ex, er) = if predictable(k) {
                    if held.remove(&key) { (Some(json!({"ack": {"transactionId": tid}})), None) } else { (None, Some(21)) }
                } else {
                    (None, None)
                };
                (kind, ok_kind, body, exact, err, is_sub) = ("releaseLock", "ack", json!({"transactionId": tid, "key": key}), ex, er, false);
            }
            Req::Transform(k) => {
                let key = resolve(k, si);
                (kind, ok_kind, body, exact, err, is_sub) = ("transform", "ack", json!({"transactionId": tid, "key": key, "template": {"x": "y"}}), None, Some(19), false);
            }
        }
        // verbatim keys: protected / invalid ones have a defined reason for the mutating kinds
        let raw_key = match r {
            Req::Set(K::Raw(k), _) | Req::CSet(K::Raw(k), _, _) | Req::Delete(K::Raw(k)) | Req::SPubInit(K::Raw(k)) | Req::PDelete(K::Raw(k), _) => Some(k.clone()),
            _ => None,
        };
        let mut err = err;
        if let Some(k) = raw_key {
            if k.is_empty() {
                err = Some(25);
            } else if k == "$SYS" || k.starts_with("$SYS/") {
                err = Some(9);
            }
        }
        lines.push(json!({ kind: body }).to_string());
        sent.push(Sent { tid, kind, ok_kind, exact, err, is_sub });
    }
    let sentinel = fresh(u64::MAX - 1, &mut used);
    lines.push(json!({"get": {"transactionId": sentinel, "key": format!("p{si}/__sentinel__")}}).to_string());
    (lines, sent, sentinel)
}

async fn run_session(sock: std::path::PathBuf, script: Script, si: usize) -> Result<(u64, u64, u64), Failure> {
    let mut s = Session::connect(&sock).await.map_err(|e| Failure::new("c13.connect", "a welcome message", e))?;
    if script.v0 {
        s.send_json(&json!({"protocolSwitchRequest": {"version": 0}})).await;
        match s.recv(Duration::from_secs(10)).await {
            Recv::Msg(v) if kind_and_tid(&v) == Some(("ack".to_owned(), 0)) => {}
            other => return Err(Failure::new("c13.protocol_switch", "ack 0", format!("{other:?}"))),
        }
    }
    let (lines, sent, sentinel) = plan(&script, si);
    let mut burst = String::new();
    for l in &lines {
        burst.push_str(l);
        burst.push('\n');
    }
    if !s.send_raw(burst.as_bytes()).await {
        return Err(Failure::new("c13.write", "the session accepts the requests", "write failed (session closed)").sig(json!({"obs": "c13.session_closed"})));
    }
    let mut received: Vec<Value> = vec![];
    let mut got_sentinel = false;
    loop {
        match s.recv(Duration::from_secs(20)).await {
            Recv::Msg(v) => {
                let is_sentinel = kind_and_tid(&v).map(|(_, t)| t == sentinel).unwrap_or(false);
                if is_sentinel {
                    got_sentinel = true;
                    break;
                }
                received.push(v);
            }
            Recv::Garbage(l) => return Err(Failure::new("c13.garbage", "JSON lines", l)),
            Recv::Closed => break,
            Recv::Timeout => return Err(Failure::new("c13.timeout", "an answer to the sentinel request within 20 s", "nothing").sig(json!({"obs": "timeout"}))),
        }
    }
    // requests answered from spawned tasks (acquireLock) may be answered slightly after the sentinel
    let pending_acquire: Vec<u64> = sent.iter().filter(|x| x.kind == "acquireLock").map(|x| x.tid).collect();
    if got_sentinel && !pending_acquire.is_empty() {
        let deadline = tokio::time::Instant::now() + Duration::from_secs(10);
        loop {
            let answered = |t: u64| received.iter().any(|v| kind_and_tid(v).map(|(k, tt)| tt == t && (k == "ack" || k == "err")).unwrap_or(false));
            if pending_acquire.iter().all(|t| answered(*t)) || tokio::time::Instant::now() > deadline {
                break;
            }
            match s.recv(Duration::from_millis(200)).await {
                Recv::Msg(v) => received.push(v),
                Recv::Closed => break,
                _ => {}
            }
        }
    }
    // ---- evaluation
    let by_tid: BTreeMap<u64, Vec<&Sent>> = sent.iter().fold(BTreeMap::new(), |mut m, s| {
        m.entry(s.tid).or_default().push(s);
        m
    });
    let mut terminal: BTreeMap<u64, Vec<&Value>> = BTreeMap::new();
    let mut acked_subs: BTreeSet<u64> = BTreeSet::new();
    let mut events = 0u64;
    for v in &received {
        let Some((kind, tid)) = kind_and_tid(v) else {
            return Err(Failure::new("c13.unexpected_message", "answers and events", v.to_string()));
        };
        let Some(reqs) = by_tid.get(&tid) else {
            return Err(Failure::new("c13.foreign_id", "only transaction ids of this session's requests", v.to_string()));
        };
        let sub_req = reqs.iter().any(|r| r.is_sub);
        if sub_req && (kind == "state" || kind == "pState" || kind == "lsState") {
            if !acked_subs.contains(&tid) {
                return Err(Failure::new("c13.event_before_ack", "events only after the Ack of their subscribe request", v.to_string()));
            }
            events += 1;
            continue;
        }
        if sub_req && kind == "ack" && !acked_subs.contains(&tid) {
            acked_subs.insert(tid);
        }
        terminal.entry(tid).or_default().push(v);
    }
    if !got_sentinel {
        // which request was the last one answered
        let answered = terminal.len();
        return Err(Failure::new(
            "c13.session_ended",
            "a failing request does not end the session: the sentinel request is answered",
            format!("session closed after {answered} of {} requests were answered; unanswered kinds: {:?}", sent.len(), sent.iter().filter(|x| !terminal.contains_key(&x.tid)).map(|x| x.kind).collect::<Vec<_>>()),
        )
        .sig(json!({"obs": "c13.session_ended", "first_unanswered": sent.iter().find(|x| !terminal.contains_key(&x.tid)).map(|x| x.kind)})));
    }
    let mut errs = 0u64;
    for (tid, reqs) in &by_tid {
        let answers = terminal.get(tid).cloned().unwrap_or_default();
        if answers.len() != reqs.len() {
            return Err(Failure::new(
                "c13.answer_count",
                format!("{} terminal answer(s) for transaction id {tid} ({:?})", reqs.len(), reqs.iter().map(|r| r.kind).collect::<Vec<_>>()),
                format!("{}: {:?}", answers.len(), answers.iter().map(|a| a.to_string()).collect::<Vec<_>>()),
            )
            .sig(json!({"obs": "c13.answer_count", "kind": reqs[0].kind})));
        }
        for (a, r) in answers.iter().zip(reqs.iter()) {
            let (kind, _) = kind_and_tid(a).expect("checked");
            if kind == "err" {
                errs += 1;
            }
            if kind != "err" && kind != r.ok_kind {
                return Err(Failure::new("c13.answer_kind", format!("{} or err for a {} request", r.ok_kind, r.kind), a.to_string()));
            }
            if reqs.len() == 1 {
                if let Some(code) = r.err {
                    let got = a["err"]["errorCode"].as_u64();
                    if kind != "err" || got != Some(code) {
                        return Err(Failure::new("c13.error_code", format!("err with errorCode {code} for {} (tid {tid})", r.kind), a.to_string()).sig(json!({"obs": "c13.error_code", "kind": r.kind})));
                    }
                } else if let Some(ex) = &r.exact
                    && !set_eq(ex, a)
                {
                    return Err(Failure::new("c13.answer", ex.to_string(), a.to_string()).sig(json!({"obs": "c13.answer", "kind": r.kind})));
                }
            }
        }
    }
    Ok((sent.len() as u64, errs, events))
}

async fn run_case(case: &Case, _kfs: &KnownFindings) -> Result<CaseReport, Failure> {
    let ws = WireServer::start("C13", |_| {}).await.map_err(|e| Failure::new("c13.server", "server starts", e))?;
    let mut handles = vec![];
    for (si, sc) in case.sessions.iter().enumerate() {
        handles.push(tokio::spawn(run_session(ws.sock.clone(), sc.clone(), si)));
    }
    let mut rep = CaseReport::default();
    let mut first_err = None;
    let (mut reqs, mut errs, mut events) = (0, 0, 0);
    for h in handles {
        match h.await {
            Ok(Ok((r, e, ev))) => {
                reqs += r;
                errs += e;
                events += ev;
            }
            Ok(Err(f)) => {
                if first_err.is_none() {
                    first_err = Some(f);
                }
            }
            Err(e) => {
                if first_err.is_none() {
                    first_err = Some(Failure::new("c13.harness", "session task completes", e.to_string()));
                }
            }
        }
    }
    let crashed = ws.server.is_finished();
    let stop = ws.stop().await;
    if let Some(f) = first_err {
        if f.signature.get("obs").and_then(|o| o.as_str()) == Some("timeout") {
            rep.inconclusive = true;
            return Ok(rep);
        }
        return Err(f);
    }
    if crashed || stop.is_err() {
        return Err(Failure::new("c13.server_crashed", "the server keeps running", format!("{stop:?}")));
    }
    rep.counters = vec![("requests", reqs), ("err_answers", errs), ("events", events)];
    if errs >= 2 {
        rep.classes.push("two_or_more_requests_answered_with_err");
    }
    if events >= 1 {
        rep.classes.push("subscription_with_events");
    }
    if case.sessions.len() > 1 {
        rep.classes.push("concurrent_sessions");
    }
    if case.sessions.iter().any(|s| s.v0) {
        rep.classes.push("protocol_v0_session");
    }
    rep.nontrivial = reqs >= 5 && errs >= 2 && events >= 1;
    Ok(rep)
}

pub fn check_case(case: &Case, kfs: &KnownFindings) -> Result<CaseReport, Failure> {
    block_on(run_case(case, kfs))
}

fn rel_key() -> BoxedStrategy<String> {
    proptest::collection::vec(prop_oneof![4 => Just("a"), 3 => Just("b"), 1 => Just("c"), 1 => Just(""), 1 => Just("ä")], 1..=3)
        .prop_map(|v| v.join("/"))
        .prop_map(|s| if s.is_empty() { "a".to_owned() } else { s })
        .boxed()
}

fn rel_pattern() -> BoxedStrategy<String> {
    (proptest::collection::vec(prop_oneof![4 => Just("a"), 3 => Just("b"), 3 => Just("?")], 0..=2), any::<bool>())
        .prop_map(|(mut v, hash)| {
            if hash || v.is_empty() {
                v.push("#");
            }
            v.join("/")
        })
        .boxed()
}

fn key(v0: bool) -> BoxedStrategy<K> {
    let _ = v0;
    prop_oneof![
        12 => rel_key().prop_map(K::Private),
        3 => rel_key().prop_map(K::Shared),
        1 => Just(K::Raw("$SYS/version".into())),
        1 => Just(K::Raw("$SYS/clients".into())),
        1 => Just(K::Raw("".into())),
        1 => Just(K::Raw("a/?/b".into())),
        1 => Just(K::Raw("a/#".into())),
    ]
    .boxed()
}

fn pattern() -> BoxedStrategy<K> {
    prop_oneof![
        10 => rel_pattern().prop_map(K::Private),
        2 => rel_pattern().prop_map(K::Shared),
        1 => Just(K::Raw("#".into())),
        1 => Just(K::Raw("p0/#/a".into())),
        1 => Just(K::Raw("$SYS/#".into())),
    ]
    .boxed()
}

fn req(v0: bool) -> BoxedStrategy<Req> {
    let val = || jgen::value(true, true);
    let mut alts: Vec<(u32, BoxedStrategy<Req>)> = vec![
        (6, key(v0).prop_map(Req::Get).boxed()),
        (4, pattern().prop_map(Req::PGet).boxed()),
        (10, (key(v0), val()).prop_map(|(k, v)| Req::Set(k, v)).boxed()),
        (3, (key(v0), val()).prop_map(|(k, v)| Req::Publish(k, v)).boxed()),
        (2, key(v0).prop_map(Req::SPubInit).boxed()),
        (3, (any::<u16>(), val()).prop_map(|(i, v)| Req::SPub(i, v)).boxed()),
        (3, (key(v0), any::<bool>(), any::<bool>()).prop_map(|(k, u, l)| Req::Subscribe(k, u, l)).boxed()),
        (4, (pattern(), any::<bool>(), any::<bool>()).prop_map(|(k, u, l)| Req::PSubscribe(k, u, l)).boxed()),
        (2, any::<u16>().prop_map(Req::Unsubscribe).boxed()),
        (5, key(v0).prop_map(Req::Delete).boxed()),
        // a pdelete of `#` would reach into the other sessions' private key spaces: not generated
        (
            3,
            (pattern(), proptest::option::of(any::<bool>()))
                .prop_map(|(k, q)| Req::PDelete(if k == K::Raw("#".into()) { K::Raw("$SYS/#".into()) } else { k }, q))
                .boxed(),
        ),
        (3, proptest::option::weighted(0.8, key(v0)).prop_map(Req::Ls).boxed()),
        (2, proptest::option::weighted(0.8, rel_pattern().prop_map(|p| K::Private(p.replace("/#", "").replace('#', "a")))).prop_map(Req::PLs).boxed()),
        (2, proptest::option::weighted(0.8, rel_key().prop_map(K::Private)).prop_map(Req::SubscribeLs).boxed()),
        (1, any::<u16>().prop_map(Req::UnsubscribeLs).boxed()),
    ];
    if !v0 {
        alts.push((4, key(v0).prop_map(Req::CGet).boxed()));
        alts.push((8, (key(v0), val(), prop_oneof![5 => Just(V::Current), 2 => Just(V::Stale), 2 => Just(V::Future), 2 => Just(V::Zero)]).prop_map(|(k, v, ver)| Req::CSet(k, v, ver)).boxed()));
        alts.push((2, prop_oneof![4 => rel_key().prop_map(K::Private), 1 => rel_key().prop_map(K::Shared)].prop_map(Req::Lock).boxed()));
        alts.push((2, rel_key().prop_map(K::Private).prop_map(Req::AcquireLock).boxed()));
        alts.push((2, prop_oneof![4 => rel_key().prop_map(K::Private), 1 => rel_key().prop_map(K::Shared)].prop_map(Req::ReleaseLock).boxed()));
        alts.push((1, rel_key().prop_map(K::Private).prop_map(Req::Transform).boxed()));
    }
    proptest::strategy::Union::new_weighted(alts).boxed()
}

fn script(max: usize) -> BoxedStrategy<Script> {
    prop_oneof![4 => Just(false), 1 => Just(true)]
        .prop_flat_map(move |v0| {
            (
                Just(v0),
                proptest::collection::vec(req(v0), 1..=max),
                proptest::collection::vec(prop_oneof![4 => 1..50u64, 1 => Just(u64::MAX), 1 => Just(u64::MAX - 2), 2 => any::<u64>()], max),
            )
        })
        .prop_map(|(v0, reqs, tids)| Script { v0, reqs, tids })
        .boxed()
}

fn case(max: usize) -> BoxedStrategy<Case> {
    proptest::collection::vec(script(max), 1..=4).prop_map(|sessions| Case { sessions }).boxed()
}

// ------------------------------------------------------------------------------------------
// back pressure: a TCP client that pipelines requests and reads the answers late and in small
// pieces, so that the server's socket writes are short (partial) writes

#[derive(Clone, Debug, PartialEq, Serialize, Deserialize)]
pub struct Backpressure {
    /// size of the stored value in KiB
    pub value_kib: u8,
    pub requests: u16,
    /// the client starts reading only after this many ms
    pub pause_ms: u16,
    /// sizes of the client's reads (cycled)
    pub read_sizes: Vec<u16>,
}

async fn run_backpressure(case: &Backpressure) -> Result<CaseReport, Failure> {
    use tokio::io::{AsyncReadExt, AsyncWriteExt};
    let port = crate::server::free_port();
    let ws = WireServer::start("C13", |c| {
        c.tcp_endpoint = Some(worterbuch::Endpoint { tls: false, bind_addr: [127, 0, 0, 1].into(), port });
        c.tcp_disabled = false;
    })
    .await
    .map_err(|e| Failure::new("c13.server", "server starts", e))?;
    let res = async {
        // wait for the tcp endpoint
        let mut stream = None;
        for _ in 0..2000 {
            let sock = tokio::net::TcpSocket::new_v4().map_err(|e| Failure::new("c13.tcp", "socket", e.to_string()))?;
            sock.set_recv_buffer_size(16 * 1024).ok();
            match sock.connect(([127, 0, 0, 1], port).into()).await {
                Ok(s) => {
                    stream = Some(s);
                    break;
                }
                Err(_) => tokio::time::sleep(Duration::from_millis(1)).await,
            }
        }
        let Some(mut stream) = stream else {
            return Err(Failure::new("c13.tcp", "the tcp endpoint accepts connections within 2 s", "it did not").sig(json!({"obs": "timeout"})));
        };
        let value = "v".repeat(case.value_kib.max(1) as usize * 1024);
        let n = case.requests.max(1) as u64;
        let mut burst = String::new();
        burst.push_str(&json!({"set": {"transactionId": 1, "key": "bp/value", "value": value}}).to_string());
        burst.push('\n');
        for i in 0..n {
            burst.push_str(&json!({"get": {"transactionId": 100 + i, "key": "bp/value"}}).to_string());
            burst.push('\n');
        }
        stream.write_all(burst.as_bytes()).await.map_err(|e| Failure::new("c13.tcp", "requests are accepted", e.to_string()))?;
        tokio::time::sleep(Duration::from_millis(case.pause_ms as u64)).await;
        // read late and in small pieces
        let mut data: Vec<u8> = vec![];
        let mut lines: Vec<String> = vec![];
        let mut ri = 0usize;
        let want = n as usize + 2; // welcome, ack of the set, n states
        let deadline = tokio::time::Instant::now() + Duration::from_secs(60);
        while lines.len() < want {
            let size = case.read_sizes.get(ri % case.read_sizes.len().max(1)).copied().unwrap_or(4096).max(1) as usize;
            ri += 1;
            let mut buf = vec![0u8; size];
            match tokio::time::timeout(Duration::from_secs(20), stream.read(&mut buf)).await {
                Ok(Ok(0)) => break,
                Ok(Ok(k)) => data.extend_from_slice(&buf[..k]),
                Ok(Err(e)) => return Err(Failure::new("c13.tcp", "answers can be read", e.to_string())),
                Err(_) => return Err(Failure::new("c13.tcp_timeout", "answers within 20 s", "none").sig(json!({"obs": "timeout"}))),
            }
            while let Some(pos) = data.iter().position(|b| *b == b'\n') {
                let line: Vec<u8> = data.drain(..=pos).collect();
                lines.push(String::from_utf8_lossy(&line[..line.len() - 1]).into_owned());
            }
            if tokio::time::Instant::now() > deadline {
                return Err(Failure::new("c13.tcp_timeout", "all answers within 60 s", format!("{} of {want}", lines.len())).sig(json!({"obs": "timeout"})));
            }
        }
        if lines.len() < want {
            return Err(Failure::new("c13.backpressure.closed", format!("{want} messages"), format!("connection closed after {}", lines.len())));
        }
        for (i, l) in lines.iter().enumerate().skip(1) {
            let v: Value = serde_json::from_str(l).map_err(|e| {
                Failure::new("c13.backpressure.garbled", format!("message #{i} is a well formed server message"), format!("{e}: {}…", &l.chars().take(120).collect::<String>()))
                    .sig(json!({"obs": "c13.backpressure.garbled"}))
            })?;
            if i == 1 {
                if kind_and_tid(&v) != Some(("ack".into(), 1)) {
                    return Err(Failure::new("c13.backpressure.answer", "ack 1", l.chars().take(200).collect::<String>()));
                }
                continue;
            }
            let tid = 100 + (i as u64 - 2);
            if v["state"]["transactionId"].as_u64() != Some(tid) || v["state"]["value"].as_str() != Some(value.as_str()) {
                return Err(Failure::new(
                    "c13.backpressure.answer",
                    format!("state with transaction id {tid} and the stored value of {} bytes", value.len()),
                    format!("{}…", l.chars().take(160).collect::<String>()),
                )
                .sig(json!({"obs": "c13.backpressure.answer"})));
            }
        }
        Ok(())
    }
    .await;
    let stop = ws.stop().await;
    match res {
        Err(f) if f.signature.get("obs").and_then(|o| o.as_str()) == Some("timeout") => return Ok(CaseReport { inconclusive: true, ..Default::default() }),
        Err(f) => return Err(f),
        Ok(()) => {}
    }
    stop.map_err(|e| Failure::new("c13.server_crashed", "clean stop", e))?;
    let volume = case.value_kib as u64 * 1024 * case.requests as u64;
    Ok(CaseReport {
        nontrivial: volume > 1 << 20,
        classes: if volume > 1 << 20 { vec!["more_than_1_MiB_of_answers_pending"] } else { vec![] },
        counters: vec![("answer_bytes", volume)],
        ..Default::default()
    })
}

pub fn check_backpressure(case: &Backpressure) -> Result<CaseReport, Failure> {
    block_on(run_backpressure(case))
}

fn backpressure_case() -> BoxedStrategy<Backpressure> {
    (
        prop_oneof![1..8u8, 8..48u8],
        prop_oneof![20..120u16, 120..400u16],
        0..300u16,
        proptest::collection::vec(prop_oneof![1..64u16, 64..2000u16, 2000..20000u16], 1..6),
    )
        .prop_map(|(value_kib, requests, pause_ms, read_sizes)| Backpressure { value_kib, requests, pause_ms, read_sizes })
        .boxed()
}

pub fn run(cfg: &RunCfg) -> i32 {
    let mut check = Check::new(cfg, "exploration");
    check.assume("wire engine: the whole server in process, reached over its unix domain socket with newline delimited JSON; all requests of a session are written in one burst followed by a sentinel get; answers are collected until the sentinel's answer arrives (requests answered from spawned tasks - acquireLock - get up to 10 s more)");
    check.assume("the answer is predicted (full message or error code) for requests on the session's private key space and for protected / empty keys; in the shared contended area only the kind of the answer is checked; handshake messages are not part of the domain");
    let kfs = check.kf.clone();
    let n = cfg.cases(4_000, 200_000);
    let max = cfg.tier.pick(25, 60);
    let (agg, v) = run_prop(cfg, "random", n, move || case(max), |c: &Case| check_case(c, &kfs));
    check.add_part(
        "random",
        "1-4 concurrent sessions (protocol v1, 20 % v0) each pipelining 1..=25 requests over all message kinds of their protocol version with non-monotonic transaction ids up to u64::MAX, valid and invalid arguments (stale/future versions, absent keys, misplaced #, unknown subscriptions and streams, protected and empty keys, transform); oracle: exactly one terminal answer per request with the request's id and of the kind the protocol assigns (or err with the predicted errorCode), predicted answer content on the private key space, events only with ids of acknowledged subscriptions and after the ack, no foreign ids, session still open at the sentinel; non-trivial = >= 5 requests, >= 2 err answers, >= 1 subscription event; distinct = case",
        false,
        agg,
    );
    if let Some(v) = v {
        check.violate("random", &v.case, v.failure);
    }
    if !check.has_violation() {
        // fixed small budget: every case moves megabytes through a socket
        let n = match cfg.tier {
            crate::util::Tier::Quick => 48,
            crate::util::Tier::Thorough => 2_000,
        };
        let n = ((n as f64) * cfg.scale).max(1.0) as u64;
        let (agg, v) = run_prop(cfg, "backpressure", n, backpressure_case, check_backpressure);
        check.add_part(
            "backpressure",
            "a TCP client with a 16 KiB receive buffer stores a value of 1-47 KiB, pipelines 20-400 gets of it in one burst, starts reading only after 0-300 ms and then reads in pieces of generated sizes (1 byte .. 20 KB), so that the server's socket writes are partial writes; oracle: every line received is a well formed message, the answers carry the ids of the requests in order and the complete stored value; non-trivial = more than 1 MiB of answers were pending; distinct = case",
            false,
            agg,
        );
        if let Some(v) = v {
            check.violate("backpressure", &v.case, v.failure);
        }
    }
    if !check.has_violation() {
        super::c13l::part(&mut check, cfg);
    }
    check.finish()
}
