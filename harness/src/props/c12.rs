//! C12 Promoting a follower loses nothing that was replicated.

use crate::cluster::*;
use crate::evidence::{Check, KnownFindings};
use crate::persist::{Registration, Snapshot, StateEntry, fresh_dir};
use crate::props::c11::{self, Driver, LOp, Stats};
use crate::server::{Server, free_port};
use crate::util::{CaseReport, Failure, RunCfg, block_on, run_prop, scratch_dir};
use proptest::prelude::*;
use serde::{Deserialize, Serialize};
use serde_json::{Value, json};
use std::collections::BTreeSet;
use worterbuch::{Args, Config};

#[derive(Clone, Debug, PartialEq, Serialize, Deserialize)]
pub struct Case {
    pub ops: Vec<LOp>,
    pub with_known_finding_shapes: bool,
}

/// the configuration the server binary builds for the given command line (clean environment),
/// with only the data directory and the endpoints adjusted
async fn binary_config(args: Args, data_dir: &std::path::Path) -> Result<Config, Failure> {
    let c = Config::new(Some(args)).await.map_err(|e| Failure::new("c12.config", "Config::new", e.to_string()))?;
    let mut c = cluster_base(c);
    c.data_dir = data_dir.to_string_lossy().into_owned();
    Ok(c)
}

static CMDLINES: std::sync::OnceLock<Result<(Vec<String>, Vec<String>), String>> = std::sync::OnceLock::new();

fn cmdlines() -> &'static Result<(Vec<String>, Vec<String>), String> {
    CMDLINES.get_or_init(crate::props::c19::capture_cmdlines)
}

/// What the server binary parses from the command line the *real orchestrator* uses for the role
/// (captured once per run through the stub executable), with this case's sync port, leader
/// address and instance name substituted for the captured values.
fn role_args(leader: bool, sync_port: u16, leader_port: u16, name: &str) -> Result<Args, Failure> {
    use clap::Parser;
    let (l, f) = cmdlines().as_ref().map_err(|e| Failure::new("c12.cmdlines", "the orchestrator's command lines can be captured", e).sig(json!({"obs": "timeout"})))?;
    let template = if leader { l } else { f };
    let mut argv = vec!["worterbuch".to_owned()];
    let mut it = template.iter();
    while let Some(a) = it.next() {
        argv.push(a.clone());
        match a.as_str() {
            "--sync-port" | "-s" => {
                it.next();
                argv.push(sync_port.to_string());
            }
            "--leader-address" | "-l" => {
                it.next();
                argv.push(format!("127.0.0.1:{leader_port}"));
            }
            "--instance-name" | "-n" => {
                it.next();
                argv.push(name.to_owned());
            }
            _ => {}
        }
    }
    Args::try_parse_from(&argv).map_err(|e| {
        Failure::new("c12.cmdline_rejected", "the server binary accepts the command line the orchestrator starts it with", format!("{argv:?}: {e}")).sig(json!({"obs": "c12.cmdline_rejected"}))
    })
}

fn regs_to_clients(regs: &[(String, Value)]) -> Vec<Registration> {
    // one Registration per registration key (the order of clients is not fixed; order dependent cases are dropped)
    regs.iter()
        .map(|(k, v)| {
            if k.ends_with("/graveGoods") {
                Registration { grave_goods: v.as_array().map(|a| a.iter().filter_map(|s| s.as_str().map(|s| s.to_owned())).collect()), last_will: None }
            } else {
                Registration {
                    grave_goods: None,
                    last_will: v.as_array().map(|a| a.iter().filter_map(|e| Some((e.get("key")?.as_str()?.to_owned(), e.get("value")?.clone()))).collect()),
                }
            }
        })
        .collect()
}

fn snapshot(state: &[(String, Value, u64)], regs: &[(String, Value)]) -> Snapshot {
    Snapshot {
        entries: state.iter().map(|(k, v, n)| StateEntry { key: k.clone(), value: v.clone(), cas: if *n > 0 { Some(*n) } else { None } }).collect(),
        clients: regs_to_clients(regs),
    }
}

fn world_state(w: &crate::model::World) -> Vec<(String, Value, u64)> {
    let mut v: Vec<(String, Value, u64)> = w.data.iter().filter(|(k, _)| k[0] != "$SYS").map(|(k, e)| (k.join("/"), e.value.clone(), e.version())).collect();
    v.sort_by(|a, b| a.0.cmp(&b.0));
    v
}

async fn run_case(case: &Case, kfs: &KnownFindings) -> Result<CaseReport, Failure> {
    thread_local! {
        static DIR: std::path::PathBuf = scratch_dir("C12").join(format!("{:?}", std::thread::current().id()).replace(['(', ')'], ""));
    }
    let base = DIR.with(|d| d.clone());
    let dir_l = fresh_dir(&base, "leader");
    let dir_f = fresh_dir(&base, "follower");
    let mut rep = CaseReport::default();

    // the leader and the follower are started the way the orchestrator starts them: role flags on the command line
    let port = free_port();
    let lcfg = binary_config(role_args(true, port, 0, "n0")?, &dir_l).await?;
    let leader = Server::start(lcfg).await.map_err(|e| Failure::new("c12.leader", "leader starts", e))?;
    wait_for_port(port).await?;
    let mut d = Driver {
        leader,
        port,
        followers: vec![],
        connected: BTreeSet::new(),
        tainted: BTreeSet::new(),
        cas_imported: BTreeSet::new(),
        marker: 0,
        stats: Stats::default(),
        kf_shapes: case.with_known_finding_shapes,
    };
    let dir_f2 = dir_f.clone();
    // Config::new is async: build the follower configuration up front
    let fcfg = binary_config(role_args(false, 0, port, "n1")?, &dir_f2).await?;
    let follower_cfg = move |_p: u16| fcfg.clone();
    let mut res: Result<(), Failure> = Ok(());
    let mut joins = 0;
    for op in &case.ops {
        if let LOp::Join = op {
            joins += 1;
            if joins > 1 {
                continue;
            }
        }
        res = d.leader_op(op, &follower_cfg).await;
        if res.is_err() {
            break;
        }
    }
    if res.is_ok() && d.followers.is_empty() {
        res = d.leader_op(&LOp::Join, &follower_cfg).await;
    }
    // quiescent point: leader loss
    if res.is_ok() {
        d.marker += 1;
        res = quiesce(&d.leader, &d.followers[0].server, d.marker * 10).await;
    }
    let outcome = match res {
        Ok(()) => {
            let f_state = user_state(&d.followers[0].server).await;
            let l_regs = registrations(&d.leader).await;
            let f_regs = registrations(&d.followers[0].server).await;
            match (f_state, l_regs, f_regs) {
                (Ok(a), Ok(b), Ok(c)) => Ok((a, b, c)),
                (Err(e), _, _) | (_, Err(e), _) | (_, _, Err(e)) => Err(e),
            }
        }
        Err(e) => Err(e),
    };
    let stats = std::mem::take(&mut d.stats);
    let pre_join_regs: BTreeSet<String> = d.followers.first().map(|f| f.missing_regs.clone()).unwrap_or_default();
    // the leader disappears, the follower is stopped the way the orchestrator stops it (graceful)
    let stop = d.stop().await;
    let port_taken = matches!(&stop, Err(f) if f.actual.contains("in use") || f.actual.contains("AddrInUse"));
    if port_taken {
        rep.inconclusive = true;
        return Ok(rep);
    }
    let (f_state, l_regs, f_regs) = match outcome {
        Err(f) if f.signature.get("obs").and_then(|o| o.as_str()) == Some("timeout") => {
            rep.inconclusive = true;
            return Ok(rep);
        }
        Err(f) => return Err(f),
        Ok(x) => x,
    };
    stop?;
    let _ = stats;

    let all = snapshot(&f_state, &l_regs);
    if all.order_dependent() {
        rep.excluded.push(("registrations_whose_result_depends_on_application_order", 1));
        return Ok(rep);
    }
    let expected = world_state(&all.recovered());
    let with_follower_regs = world_state(&snapshot(&f_state, &f_regs).recovered());

    // promotion: a new leader on the follower's data directory
    let p2 = free_port();
    let ncfg = binary_config(role_args(true, p2, 0, "n1")?, &dir_f).await?;
    let promoted = Server::start(ncfg).await.map_err(|e| Failure::new("c12.promoted", "the promoted node starts", e))?;
    let got = user_state(&promoted).await;
    let stop = promoted.stop().await;
    if matches!(&stop, Err(e) if e.contains("in use") || e.contains("AddrInUse")) {
        // another process on this machine took the port: an accident of the environment
        rep.inconclusive = true;
        return Ok(rep);
    }
    let got = got?;
    stop.map_err(|e| Failure::new("c12.promoted", "clean stop", e))?;

    // the marker key is replicated data as well
    let strip = |v: &[(String, Value, u64)]| -> Vec<(String, Value, u64)> { v.iter().filter(|(k, _, _)| k != "verif/marker").cloned().collect() };
    let (got, expected, with_follower_regs) = (strip(&got), strip(&expected), strip(&with_follower_regs));
    if got != expected {
        let f = if got == with_follower_regs && !pre_join_regs.is_empty() {
            Failure::new("c12.promoted_state", format!("{expected:?}"), format!("{got:?}")).sig(json!({"obs": "c11.divergence", "finding": "D12a"}))
        } else if got.is_empty() && !expected.is_empty() {
            Failure::new("c12.promoted_state", format!("{expected:?}"), "the promoted node starts empty").sig(json!({"obs": "c12.promoted_node_empty"}))
        } else {
            Failure::new("c12.promoted_state", format!("{expected:?}"), format!("{got:?}")).sig(json!({"obs": "c12.promoted_state"}))
        };
        match kfs.matching("C12", &f.signature) {
            Some(k) => rep.kf.push(k.id.clone()),
            None => return Err(f),
        }
    }
    let post_join = l_regs.iter().any(|(k, _)| !pre_join_regs.contains(k));
    if !pre_join_regs.is_empty() {
        rep.classes.push("client_registered_before_the_join");
    }
    if post_join {
        rep.classes.push("client_registered_after_the_join");
    }
    if all.registrations_change_state() {
        rep.classes.push("registrations_change_the_promoted_state");
    }
    if !f_state.is_empty() {
        rep.classes.push("follower_held_user_keys");
    }
    rep.nontrivial = !f_state.is_empty() && post_join && (all.registrations_change_state() || !pre_join_regs.is_empty());
    Ok(rep)
}

pub fn check_case(case: &Case, kfs: &KnownFindings) -> Result<CaseReport, Failure> {
    block_on(run_case(case, kfs))
}

fn case(max: usize, kf: bool) -> BoxedStrategy<Case> {
    c11::case(max, kf).prop_map(|c| Case { ops: c.ops, with_known_finding_shapes: c.with_known_finding_shapes }).boxed()
}

pub fn run(cfg: &RunCfg) -> i32 {
    let mut check = Check::new(cfg, "exploration");
    check.assume("leader, follower and promoted node are in-process servers whose configuration is built exactly like the server binary builds it: the command lines are those the real orchestrator binary (rebuilt from /repo by ./check) starts the server executable with in leader and follower mode, captured once per run through a stub executable, parsed with the server's own clap definition and given to Config::new with a clean environment; only sync port, leader address, instance name, data directory and endpoints are substituted; the follower is stopped gracefully, as the orchestrator does");
    match cmdlines() {
        Ok((l, f)) => check.notes.push(format!("orchestrator command lines: leader {l:?}, follower {f:?}")),
        Err(e) => {
            eprintln!("C12: the orchestrator's command lines could not be captured: {e}");
            return 2;
        }
    }
    check.assume("expected state of the promoted node = the follower's user keys at the loss with the grave goods buried and the last wills set of all clients connected to the old leader; registrations whose result depends on the order of clients are dropped");
    let kfs = check.kf.clone();
    let n = cfg.cases(250, 10_000);
    let max = cfg.tier.pick(30, 80);
    let (agg, v) = run_prop(cfg, "main", n, move || case(max, false), |c: &Case| check_case(c, &kfs));
    check.add_part(
        "main",
        "C11's leader histories with one follower joining at a generated position; at a quiescent point the leader is lost, the follower stopped, and a new leader started on the follower's data directory with the configuration of the command line role flags; oracle: promoted node's user keys (value, version) == follower's keys with all connected clients' registrations applied; non-trivial = the follower held user keys, a client registered after the join and registrations change the state or a client registered before the join; distinct = case",
        false,
        agg,
    );
    if let Some(v) = v {
        check.violate("main", &v.case, v.failure);
    }
    if !check.has_violation() {
        let n = cfg.cases(150, 3_000);
        let (agg, v) = run_prop(cfg, "known-finding-shapes", n, move || case(max, true), |c: &Case| check_case(c, &kfs));
        check.add_part(
            "known-finding-shapes",
            "same with registrations made before the follower joined (listed known finding D12a: they never reach the follower)",
            false,
            agg,
        );
        if let Some(v) = v {
            check.violate("known-finding-shapes", &v.case, v.failure);
        }
    }
    check.finish()
}
