//! C13, lock contention between concurrent sessions: lock / acquireLock / releaseLock requests of
//! 2-3 sessions on two shared keys, including releases by sessions that are only waiting (the
//! server cancels their pending acquisition) and acquisitions that are granted much later. Whatever
//! the server decides, every request must be answered exactly once with its own transaction id.

use crate::evidence::Check;
use crate::util::{CaseReport, Failure, RunCfg, block_on, run_prop};
use crate::wire::{Recv, Session, WireServer, kind_and_tid};
use proptest::prelude::*;
use serde::{Deserialize, Serialize};
use serde_json::{Value, json};
use std::collections::BTreeMap;
use std::time::Duration;

#[derive(Clone, Debug, Serialize, Deserialize)]
pub enum LStep {
    Lock { s: u8, k: u8 },
    Acquire { s: u8, k: u8 },
    Release { s: u8, k: u8 },
    Get { s: u8 },
}

#[derive(Clone, Debug, Serialize, Deserialize)]
pub struct LockCase {
    pub sessions: u8,
    pub steps: Vec<LStep>,
}

const KEYS: [&str; 2] = ["c13/lock/one", "c13/lock/two"];

struct Sess {
    s: Session,
    next: u64,
    /// (transaction id, request kind) in sending order
    sent: Vec<(u64, &'static str)>,
    answers: BTreeMap<u64, Vec<Value>>,
    /// transaction ids in the order in which their first answer arrived
    arrival: Vec<u64>,
}

fn timeout(what: &str) -> Failure {
    Failure::new("c13l.timeout", format!("{what} within 20 s"), "nothing").sig(json!({"obs": "timeout"}))
}

impl Sess {
    fn file(&mut self, m: Value) -> Result<(), Failure> {
        match kind_and_tid(&m) {
            Some((_, t)) => {
                let e = self.answers.entry(t).or_default();
                if e.is_empty() {
                    self.arrival.push(t);
                }
                e.push(m);
                Ok(())
            }
            None => Err(Failure::new("c13l.message_without_id", "every message carries a transaction id", m.to_string())),
        }
    }

    async fn send(&mut self, kind: &'static str, mut body: Value) -> Result<u64, Failure> {
        self.next += 1;
        let tid = self.next;
        body["transactionId"] = json!(tid);
        if !self.s.send_json(&json!({ kind: body })).await {
            return Err(Failure::new("c13l.session_closed", "the session stays open (a failing request does not end it)", format!("write of {kind} failed")));
        }
        self.sent.push((tid, kind));
        Ok(tid)
    }

    async fn await_answer(&mut self, tid: u64) -> Result<(), Failure> {
        let deadline = tokio::time::Instant::now() + Duration::from_secs(20);
        while !self.answers.contains_key(&tid) {
            let left = deadline.saturating_duration_since(tokio::time::Instant::now());
            match self.s.recv(left).await {
                Recv::Msg(m) => self.file(m)?,
                Recv::Garbage(l) => return Err(Failure::new("c13l.garbage", "JSON lines", l)),
                Recv::Closed => return Err(Failure::new("c13l.session_closed", "the session stays open (a failing request does not end it)", "closed by the server")),
                Recv::Timeout => return Err(timeout(&format!("answer to transaction {tid}"))),
            }
        }
        Ok(())
    }

    fn drain(&mut self) -> Result<(), Failure> {
        for m in self.s.drain() {
            self.file(m)?;
        }
        Ok(())
    }
}

async fn drive(case: &LockCase, ws: &WireServer) -> Result<CaseReport, Failure> {
    let n = case.sessions.clamp(2, 3) as usize;
    let mut ss = vec![];
    for _ in 0..n {
        let mut s = Session::connect(&ws.sock).await.map_err(|e| Failure::new("c13l.connect", "welcome", e).sig(json!({"obs": "timeout"})))?;
        s.send_json(&json!({"protocolSwitchRequest": {"version": 1}})).await;
        let mut sess = Sess { s, next: 0, sent: vec![], answers: BTreeMap::new(), arrival: vec![] };
        sess.await_answer(0).await?;
        sess.answers.clear();
        sess.arrival.clear();
        ss.push(sess);
    }
    let mut acquires = 0usize;
    for (i, st) in case.steps.iter().enumerate() {
        let at = |f: Failure| f.at(i + 1);
        match st {
            LStep::Lock { s, k } => {
                let se = &mut ss[*s as usize % n];
                let tid = se.send("lock", json!({"key": KEYS[*k as usize % 2]})).await.map_err(at)?;
                se.await_answer(tid).await.map_err(at)?;
            }
            LStep::Release { s, k } => {
                let se = &mut ss[*s as usize % n];
                let tid = se.send("releaseLock", json!({"key": KEYS[*k as usize % 2]})).await.map_err(at)?;
                se.await_answer(tid).await.map_err(at)?;
            }
            LStep::Get { s } => {
                let se = &mut ss[*s as usize % n];
                let tid = se.send("get", json!({"key": "c13/nothing"})).await.map_err(at)?;
                se.await_answer(tid).await.map_err(at)?;
            }
            LStep::Acquire { s, k } => {
                // not waited for: it may stay pending until somebody releases the key
                let se = &mut ss[*s as usize % n];
                se.send("acquireLock", json!({"key": KEYS[*k as usize % 2]})).await.map_err(at)?;
                acquires += 1;
            }
        }
    }
    // everybody lets go of everything, often enough for every queued acquisition to be served or cancelled
    for _ in 0..acquires + 2 {
        for se in ss.iter_mut() {
            for k in KEYS {
                let tid = se.send("releaseLock", json!({"key": k})).await?;
                se.await_answer(tid).await?;
            }
        }
    }
    // every request of every session has exactly one answer. A missing answer is only reported after
    // 100 later requests of the same session were answered over at least 10 s.
    let mut rep = CaseReport::default();
    let mut pending_seen = 0u64;
    let mut cancelled = 0u64;
    for (si, se) in ss.iter_mut().enumerate() {
        let start = tokio::time::Instant::now();
        let mut pings = 0u64;
        loop {
            se.drain()?;
            let missing: Vec<(u64, &'static str)> = se.sent.iter().filter(|(t, _)| !se.answers.contains_key(t)).cloned().collect();
            if missing.is_empty() {
                break;
            }
            if pings >= 100 && start.elapsed() > Duration::from_secs(10) {
                return Err(Failure::new(
                    "c13l.unanswered",
                    format!("session {si}: exactly one answer for every request"),
                    format!("no answer for {missing:?} after all locks were released and {pings} later requests of the session were answered"),
                )
                .sig(json!({"obs": "c13l.unanswered"})));
            }
            let tid = se.send("get", json!({"key": "c13/nothing"})).await?;
            se.await_answer(tid).await?;
            pings += 1;
            tokio::time::sleep(Duration::from_millis(20)).await;
        }
    }
    // late duplicates
    tokio::time::sleep(Duration::from_millis(20)).await;
    for (si, se) in ss.iter_mut().enumerate() {
        let tid = se.send("get", json!({"key": "c13/nothing"})).await?;
        se.await_answer(tid).await?;
        se.drain()?;
        let kinds: BTreeMap<u64, &'static str> = se.sent.iter().cloned().collect();
        for (t, ms) in &se.answers {
            let Some(kind) = kinds.get(t) else {
                return Err(Failure::new("c13l.foreign_id", format!("session {si}: only transaction ids of its own requests"), format!("{ms:?}")).sig(json!({"obs": "c13l.foreign_id"})));
            };
            if ms.len() != 1 {
                return Err(Failure::new("c13l.answered_twice", format!("session {si}: exactly one answer for {kind} {t}"), format!("{ms:?}")).sig(json!({"obs": "c13l.answered_twice"})));
            }
            let k = kind_and_tid(&ms[0]).map(|x| x.0).unwrap_or_default();
            let ok = match *kind {
                "get" => k == "err" || k == "state",
                _ => k == "ack" || k == "err",
            };
            if !ok {
                return Err(Failure::new("c13l.answer_kind", format!("session {si}: {kind} {t} is answered by ack or err"), ms[0].to_string()).sig(json!({"obs": "c13l.answer_kind"})));
            }
            if *kind == "acquireLock" && k == "err" {
                cancelled += 1;
            }
        }
        // an acquisition was pending if requests sent after it were answered before it
        for (pos, (t, kind)) in se.sent.iter().enumerate() {
            if *kind != "acquireLock" {
                continue;
            }
            let my = se.arrival.iter().position(|x| x == t).unwrap_or(usize::MAX);
            if se.sent[pos + 1..].iter().any(|(later, _)| se.arrival.iter().position(|x| x == later).unwrap_or(usize::MAX) < my) {
                pending_seen += 1;
            }
        }
        rep.counters.push(("requests_with_exactly_one_answer", se.sent.len() as u64));
    }
    rep.counters.push(("acquisitions_that_were_pending", pending_seen));
    rep.counters.push(("acquisitions_answered_with_err", cancelled));
    if pending_seen > 0 {
        rep.classes.push("has_pending_acquisition");
    }
    if cancelled > 0 {
        rep.classes.push("has_cancelled_acquisition");
    }
    rep.nontrivial = pending_seen > 0;
    Ok(rep)
}

async fn run_case(case: &LockCase) -> Result<CaseReport, Failure> {
    let panics_before = crate::util::panic_count();
    let Ok(ws) = WireServer::start("C13", |_| {}).await else { return Ok(CaseReport { inconclusive: true, ..Default::default() }) };
    let res = drive(case, &ws).await;
    let crashed = ws.server.is_finished();
    let stop = ws.stop().await;
    if crate::util::panic_count() != panics_before {
        let msg = crate::util::last_panic().unwrap_or_default();
        return Err(Failure::new("c13l.panic", "no task of the server panics", &msg).sig(json!({"obs": "c13l.panic"})));
    }
    match res {
        Ok(r) => {
            if crashed || stop.is_err() {
                return Err(Failure::new("c13l.server_down", "the server keeps running and stops cleanly", format!("{stop:?}")));
            }
            Ok(r)
        }
        Err(f) if f.signature.get("obs").and_then(|o| o.as_str()) == Some("timeout") && !crashed => Ok(CaseReport { inconclusive: true, ..Default::default() }),
        Err(f) => Err(f),
    }
}

pub fn check_case(case: &LockCase) -> Result<CaseReport, Failure> {
    block_on(run_case(case))
}

fn case(max: usize) -> BoxedStrategy<LockCase> {
    let s = || 0..3u8;
    let k = || prop_oneof![3 => Just(0u8), 1 => Just(1u8)];
    let step = prop_oneof![
        3 => (s(), k()).prop_map(|(s, k)| LStep::Lock { s, k }),
        5 => (s(), k()).prop_map(|(s, k)| LStep::Acquire { s, k }),
        4 => (s(), k()).prop_map(|(s, k)| LStep::Release { s, k }),
        1 => s().prop_map(|s| LStep::Get { s }),
    ];
    (2..=3u8, proptest::collection::vec(step, 1..=max)).prop_map(|(sessions, steps)| LockCase { sessions, steps }).boxed()
}

pub fn part(check: &mut Check, cfg: &RunCfg) {
    let n = cfg.cases(100, 100_000);
    let max = cfg.tier.pick(16, 30);
    let (agg, v) = run_prop(cfg, "lock-contention", n, move || case(max), check_case);
    check.add_part(
        "lock-contention",
        "2-3 concurrent protocol-v1 sessions send lock / acquireLock / releaseLock requests for two shared keys in a generated order (acquireLock is not waited for; releases by sessions that hold nothing or are only waiting are included), then every session releases every key often enough for each queued acquisition to be served or cancelled; oracle: every request of every session has exactly one answer with its own transaction id (ack or err; a missing answer is reported only after all locks were released and 100 later requests of the session were answered over >= 10 s), no message carries a foreign id, no session is closed; non-trivial = an acquisition was pending while later requests of its session were answered; distinct = case",
        false,
        agg,
    );
    if let Some(v) = v {
        check.violate("lock-contention", &v.case, v.failure);
    }
}
