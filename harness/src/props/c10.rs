//! C10 A crash during persistence never loses a completed flush nor mixes snapshots.

use crate::evidence::{Check, KnownFindings};
use crate::jgen;
use crate::model::World;
use crate::ops;
use crate::persist::*;
use crate::util::{CaseReport, Failure, RunCfg, block_on, run_enumerated, run_prop, scratch_dir};
use proptest::prelude::*;
use serde::{Deserialize, Serialize};
use serde_json::json;
use worterbuch::verif;

#[derive(Clone, Debug, PartialEq, Serialize, Deserialize)]
pub struct Crash {
    /// name of the crash point inside the flush procedure
    pub point: String,
    /// which occurrence of that point (0-based) within the flush
    pub nth: usize,
    /// truncate the `*.tmp` files left behind to this fraction (per mille) of their length
    pub torn: Option<u16>,
}

#[derive(Clone, Debug, PartialEq, Serialize, Deserialize)]
pub enum Act {
    /// flush the given state; with a crash the process "dies" inside the flush and is restarted
    Flush { state: usize, crash: Option<Crash> },
    /// the process dies outside of a flush and is restarted
    Restart,
}

#[derive(Clone, Debug, PartialEq, Serialize, Deserialize)]
pub struct Case {
    pub states: Vec<Snapshot>,
    pub acts: Vec<Act>,
}

fn tmp_files(dir: &std::path::Path) -> Vec<std::path::PathBuf> {
    std::fs::read_dir(dir)
        .map(|rd| rd.filter_map(|e| e.ok()).map(|e| e.path()).filter(|p| p.extension().map(|x| x == "tmp").unwrap_or(false)).collect())
        .unwrap_or_default()
}

fn describe(w: &World) -> String {
    let m: Vec<String> = w.data.iter().filter(|(k, _)| k[0] != "$SYS").map(|(k, e)| format!("{}={}", k.join("/"), e.value)).collect();
    m.join(", ")
}

async fn run_case(case: &Case, _kfs: &KnownFindings) -> Result<CaseReport, Failure> {
    thread_local! {
        static DIR: std::path::PathBuf = scratch_dir("C10").join(format!("{:?}", std::thread::current().id()).replace(['(', ')'], ""));
    }
    let base = DIR.with(|d| d.clone());
    let dir = fresh_dir(&base, "case");
    let config = persist_config(&dir);
    verif::unlock_persistence();
    verif::disarm_crash_point();
    verif::take_crash_trace();
    let mut rep = CaseReport::default();
    if case.states.iter().any(|s| s.order_dependent()) {
        rep.excluded.push(("registrations_whose_result_depends_on_application_order", 1));
        return Ok(rep);
    }
    // what the next start may serve: (label, world)
    let mut acceptable: Vec<(String, World)> = vec![("nothing was ever flushed".to_owned(), World::new())];
    let mut completed = 0usize;
    let mut completed_states: Vec<usize> = vec![];
    let mut step = 0usize;
    let mut crash_runs = 0u64;
    // Acceptable states accumulate: a completed flush resets the set to its own snapshot, a crashed
    // flush adds the snapshot that was in progress, a restart changes nothing on disk and therefore
    // nothing in the set (and must serve what the previous restart served).
    let mut last_served: Option<World> = None;
    for act in &case.acts {
        step += 1;
        let mut need_restart = false;
        match act {
            Act::Flush { state, crash } => {
                last_served = None;
                let si = *state % case.states.len();
                let snap = &case.states[si];
                let mut wb = build_core(snap, &config, 7000 + 10 * step as u128).await?;
                verif::take_crash_trace();
                if let Some(c) = crash {
                    verif::arm_crash_point(&c.point, c.nth);
                }
                let res = verif::json_flush(&mut wb, &config).await;
                verif::disarm_crash_point();
                let trace = verif::take_crash_trace();
                match (crash, res) {
                    (None, Ok(())) => {
                        acceptable = vec![(format!("completed flush of state {si}"), snap.recovered())];
                        completed += 1;
                        completed_states.push(si);
                    }
                    (None, Err(e)) => return Err(Failure::new("c10.flush", "an undisturbed flush succeeds", e.to_string()).at(step)),
                    (Some(c), Err(_)) => {
                        crash_runs += 1;
                        if let Some(t) = c.torn {
                            for f in tmp_files(&dir) {
                                if let Ok(md) = std::fs::metadata(&f) {
                                    let len = md.len() * (t.min(1000) as u64) / 1000;
                                    if let Ok(file) = std::fs::OpenOptions::new().write(true).open(&f) {
                                        file.set_len(len).ok();
                                    }
                                }
                            }
                        }
                        acceptable.push((format!("flush of state {si} that was in progress"), snap.recovered()));
                        need_restart = true;
                        let distinct_completed: std::collections::BTreeSet<usize> = completed_states.iter().cloned().collect();
                        if distinct_completed.len() >= 2 && trace.len() > 1 {
                            rep.nontrivial = true;
                        }
                    }
                    (Some(_), Ok(())) => {
                        // the armed point was not reached in this flush: it simply completed
                        acceptable = vec![(format!("completed flush of state {si}"), snap.recovered())];
                        completed += 1;
                        completed_states.push(si);
                        rep.counters.push(("armed_point_not_reached", 1));
                    }
                }
            }
            Act::Restart => need_restart = true,
        }
        if need_restart {
            let (loaded, _ok) = load_or_empty(&config).await;
            let mut matched: Vec<(String, World)> = vec![];
            let mut last_err = None;
            for (label, w) in &acceptable {
                match compare_loaded(&loaded, w) {
                    Ok(()) => matched.push((label.clone(), w.clone())),
                    Err(f) => last_err = Some(f),
                }
            }
            if matched.is_empty() {
                let got = loaded
                    .pget("#")
                    .map(|v| v.into_iter().filter(|kv| !kv.key.starts_with("$SYS")).map(|kv| format!("{}={}", kv.key, kv.value)).collect::<Vec<_>>().join(", "))
                    .unwrap_or_default();
                // which snapshot (if any) was served instead
                let mut served = "no flushed snapshot at all (mixed or partial state)".to_owned();
                for (i, s) in case.states.iter().enumerate() {
                    if compare_loaded(&loaded, &s.recovered()).is_ok() {
                        served = format!("state {i}, which is neither the last completed flush nor the one in progress");
                    }
                }
                if compare_loaded(&loaded, &World::new()).is_ok() {
                    served = "an empty store".to_owned();
                }
                let exp: Vec<String> = acceptable.iter().map(|(l, w)| format!("{l}: {{{}}}", describe(w))).collect();
                let _ = last_err;
                return Err(Failure::new("c10.recovered_state", exp, format!("{served}: {{{got}}}"))
                    .at(step)
                    .sig(json!({"obs": "c10.recovered_state"})));
            }
            // the disk did not change since the previous restart: the same state must be served again
            if let Some(prev) = &last_served
                && compare_loaded(&loaded, prev).is_err()
            {
                return Err(Failure::new(
                    "c10.restart_not_idempotent",
                    format!("the state served by the previous restart (nothing was flushed in between): {{{}}}", describe(prev)),
                    "a different state",
                )
                .at(step)
                .sig(json!({"obs": "c10.restart_not_idempotent"})));
            }
            last_served = Some(matched[0].1.clone());
        }
    }
    rep.counters.push(("crash_runs", crash_runs));
    rep.counters.push(("completed_flushes", completed as u64));
    if crash_runs > 0 {
        rep.classes.push("has_crash_inside_flush");
    }
    if crash_runs > 1 {
        rep.classes.push("crash_restart_flush_crash");
    }
    Ok(rep)
}

pub fn check_case(case: &Case, kfs: &KnownFindings) -> Result<CaseReport, Failure> {
    block_on(run_case(case, kfs))
}

/// state i: marker key, a few shared keys with state dependent values, and a registration that
/// differs from every other state's
pub fn fixed_state(i: usize) -> Snapshot {
    Snapshot {
        entries: vec![
            StateEntry { key: "gen".into(), value: json!(i), cas: None },
            StateEntry { key: "shared/a".into(), value: json!(format!("v{i}")), cas: Some(i as u64 + 1) },
            StateEntry { key: format!("only/in/{i}"), value: json!(true), cas: None },
            StateEntry { key: "buried/by/will".into(), value: json!(i), cas: None },
        ],
        clients: vec![Registration {
            grave_goods: Some(vec!["buried/#".into()]),
            last_will: Some(vec![("will/gen".into(), json!(i))]),
        }],
    }
}

/// the crash points an undisturbed flush passes, as (name, occurrence)
pub fn flush_points() -> Result<Vec<(String, usize)>, Failure> {
    block_on(async {
        let base = scratch_dir("C10").join("probe");
        let dir = fresh_dir(&base, "case");
        let config = persist_config(&dir);
        verif::unlock_persistence();
        verif::disarm_crash_point();
        let mut all: Vec<(String, usize)> = vec![];
        // two flushes: the selector is created by one and removed by the next
        for i in 0..2 {
            let mut wb = build_core(&fixed_state(i), &config, 6000).await?;
            verif::take_crash_trace();
            verif::json_flush(&mut wb, &config).await.map_err(|e| Failure::new("c10.probe", "flush", e.to_string()))?;
            let trace = verif::take_crash_trace();
            let mut seen: std::collections::BTreeMap<String, usize> = Default::default();
            for t in trace {
                let n = seen.entry(t.clone()).or_default();
                if !all.contains(&(t.clone(), *n)) {
                    all.push((t.clone(), *n));
                }
                *n += 1;
            }
        }
        Ok(all)
    })
}

fn enumerated_cases(points: &[(String, usize)], max_flushes: usize) -> Vec<Case> {
    let states: Vec<Snapshot> = (0..max_flushes + 2).map(fixed_state).collect();
    let mut out = vec![];
    for f in 0..max_flushes {
        for (point, nth) in points {
            for torn in [None, Some(500u16)] {
                if torn.is_some() && !point.starts_with("write.tmp") {
                    continue;
                }
                let mut prefix: Vec<Act> = (0..f).map(|i| Act::Flush { state: i, crash: None }).collect();
                prefix.push(Act::Flush { state: f, crash: Some(Crash { point: point.clone(), nth: *nth, torn }) });
                let follow_ups: Vec<Vec<Act>> = vec![
                    vec![],
                    vec![Act::Restart],
                    vec![Act::Flush { state: f + 1, crash: None }, Act::Restart],
                    vec![Act::Flush { state: f + 1, crash: Some(Crash { point: point.clone(), nth: *nth, torn: None }) }, Act::Restart],
                ];
                for fu in follow_ups {
                    let mut acts = prefix.clone();
                    acts.extend(fu);
                    out.push(Case { states: states.clone(), acts });
                }
            }
        }
    }
    out
}

fn random_case(points: Vec<(String, usize)>) -> BoxedStrategy<Case> {
    let entry = (ops::key(), jgen::value(false, false), prop_oneof![3 => Just(None), 1 => (1..5u64).prop_map(Some)])
        .prop_map(|(key, value, cas)| StateEntry { key, value, cas });
    let state = (proptest::collection::vec(entry, 0..=3), proptest::collection::vec(ops::key(), 0..=2), proptest::collection::vec((ops::key(), ops::small_value()), 0..=2));
    let states = proptest::collection::vec(state, 2..=5).prop_map(|sts| {
        sts.into_iter()
            .enumerate()
            .map(|(i, (mut entries, gg, lw))| {
                entries.retain(|e| !e.key.is_empty());
                // make the states and their registrations pairwise distinct
                entries.push(StateEntry { key: "gen".into(), value: json!(i), cas: None });
                let mut lw = lw;
                lw.push(("will/gen".to_owned(), json!(i)));
                Snapshot { entries, clients: vec![Registration { grave_goods: Some(gg), last_will: Some(lw) }] }
            })
            .collect::<Vec<_>>()
    });
    let np = points.len();
    let act = prop_oneof![
        4 => (0..6usize).prop_map(|state| Act::Flush { state, crash: None }),
        5 => (0..6usize, 0..np, proptest::option::weighted(0.3, 0..1000u16)).prop_map(move |(state, p, torn)| Act::Flush {
            state,
            crash: Some(Crash { point: points[p].0.clone(), nth: points[p].1, torn }),
        }),
        2 => Just(Act::Restart),
    ];
    (states, proptest::collection::vec(act, 1..=8))
        .prop_map(|(states, acts)| Case { states, acts })
        .boxed()
}

pub fn run(cfg: &RunCfg) -> i32 {
    let mut check = Check::new(cfg, "fault_enumeration");
    check.assume("process-crash model of the property: a crash is the flush procedure returning early at a crash point between two file system operations (hook behind the cargo feature verif); completed file operations persist in order; only *.tmp files can be torn (they are truncated by the harness)");
    check.assume("a restart is the real loader chain; a load error means the server starts with an empty instance, as PersistentStorageImpl::load does");
    let kfs = check.kf.clone();
    let points = match flush_points() {
        Ok(p) => p,
        Err(f) => {
            check.violate("probe", &"undisturbed flush", f);
            return check.finish();
        }
    };
    check.notes.push(format!("crash points passed by an undisturbed flush (name, occurrence): {points:?}"));
    let max_flushes = cfg.tier.pick(4, 5);
    let cases = enumerated_cases(&points, max_flushes);
    let ncases = cases.len();
    let (agg, v) = run_enumerated(cfg, &cases, |c| check_case(c, &kfs));
    check.add_part(
        "enumeration",
        &format!("{ncases} crash runs: every crash point ({} points: every file system step of the flush procedure, *.tmp files also torn to half their length) of every flush in a history of 1..={max_flushes} flushes of pairwise distinct states with distinct registrations, x 4 follow-ups (restart; restart twice; restart, complete flush, restart; restart, crash at the same point of the next flush, restart); oracle: the state served after every restart is the last completed flush's snapshot or the in-progress one, each with its own grave goods / last wills applied; non-trivial = crash inside a flush that was preceded by >= 2 completed flushes of different states; distinct = case", points.len()),
        true,
        agg,
    );
    if let Some(v) = v {
        check.violate("enumeration", &v.case, v.failure);
    }
    if !check.has_violation() {
        let n = cfg.cases(3_000, 100_000);
        let pts = points.clone();
        let (agg, v) = run_prop(cfg, "random", n, move || random_case(pts.clone()), |c: &Case| check_case(c, &kfs));
        check.add_part(
            "random",
            "random histories of 1-8 acts over 2-5 generated states (flush, flush with a crash at a generated point/occurrence with optional torn *.tmp, restart outside a flush), incl. crash -> restart -> flush -> crash sequences; same oracle",
            false,
            agg,
        );
        if let Some(v) = v {
            check.violate("random", &v.case, v.failure);
        }
    }
    if !check.has_violation() {
        // the callers of the flush procedure (periodic task, shutdown sequence) in a real process
        use crate::props::c18::{self, Stop};
        check.assume("process part: a real server process in JSON mode with a flush interval of 1 s (the minimum the configuration allows); one client, so the applied order is the request order; SIGKILL can hit anywhere, including inside a flush - the positions are sampled by wall-clock time, not enumerated");
        let backend = c18::JSON_1S;
        let n = cfg.cases(24, 2_000);
        let strat = || {
            (
                c18::writes(16, false),
                prop_oneof![5 => (0..1600u16).prop_map(Stop::KillAfterMs), 2 => any::<u16>().prop_map(Stop::KillAfterAck), 2 => Just(Stop::Term)],
                (any::<u16>(), 1020..1500u16),
            )
                .prop_map(|(writes, stop, pause)| c18::Case { writes, stop, pause_at: Some(pause) })
                .boxed()
        };
        let (agg, v) = run_prop(cfg, "process", n, strat, |c: &c18::Case| {
            let mut rep = c18::check_case_on(c, &kfs, backend)?;
            let get = |name: &str| rep.counters.iter().find(|(k, _)| *k == name).map(|(_, n)| *n).unwrap_or(0);
            let (prefix, changes) = (get("recovered_prefix"), get("changes"));
            if prefix > 0 && prefix < changes {
                rep.classes.push("recovered_a_flush_from_the_middle_of_the_history");
            }
            rep.nontrivial = prefix > 0 && (prefix < changes || rep.classes.contains(&"clean_stop"));
            Ok(rep)
        });
        check.add_part(
            "process",
            "a server process with JSON persistence (flush interval 1 s) receives 1..=16 requests (set, cset, delete, pdelete, grave goods / last will registrations) by one client, who pauses 1.0-1.5 s at a generated position so that a periodic flush falls into the middle of the history, and is stopped by SIGKILL after 0-1.6 s, by SIGKILL right after a generated answer, or by SIGTERM; a second process on the same directory is read back; oracle: the served user keys (value, kind, CAS version) equal the state after some prefix of the single-key changes with the registrations of that prefix applied - never a mix, never a partial state (also after a clean stop: the statement promises the last completed flush or the one in progress, and the periodic flush task can still be writing an older snapshot while the shutdown sequence flushes); non-trivial = the recovered prefix is non-empty and (shorter than the history or the stop was clean); distinct = case",
            false,
            agg,
        );
        if let Some(v) = v {
            check.violate("process", &v.case, v.failure);
        }
    }
    check.finish()
}
