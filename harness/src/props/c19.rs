//! C19 A node takes the leader role only with a quorum of distinct peers' votes.
//!
//! Black box: the real `worterbuch-cluster-orchestrator` process, a stub server executable that
//! logs its command line, and scripted peers on loopback UDP sockets. Only safety is asserted
//! and only "sent so far" sets are used, so slow scheduling can only make the oracle more
//! permissive.

use crate::evidence::{Check, KnownFindings};
use crate::util::{CaseReport, Failure, RunCfg, block_on, run_prop, scratch_dir, verif_root};
use proptest::prelude::*;
use serde::{Deserialize, Serialize};
use serde_json::{Value, json};
use std::collections::BTreeSet;
use std::os::unix::process::CommandExt;
use std::process::{Command, Stdio};
use std::sync::{Arc, Mutex};
use std::time::{Duration, Instant};
use tokio::net::UdpSocket;

#[derive(Clone, Debug, PartialEq, Serialize, Deserialize)]
pub struct Compete {
    /// ms after start at which the peer asks for votes itself
    pub at_ms: u16,
    pub priority: i64,
    /// ms after its vote request at which it announces itself as leader (heartbeat request)
    pub heartbeat_after_ms: Option<u16>,
}

#[derive(Clone, Debug, PartialEq, Serialize, Deserialize)]
pub struct PeerScript {
    /// number of vote responses sent for every vote request of the node (0 = silent, >1 = duplicates)
    pub votes_per_request: u8,
    /// delay of the vote responses in ms (a late vote arrives in a later round)
    pub vote_delay_ms: u16,
    /// vote responses sent right after the start, before the node can have asked for votes
    pub unsolicited_votes: u8,
    pub compete: Option<Compete>,
    /// answer the node's heartbeats once it leads (keeps it leader)
    pub ack_heartbeats: bool,
    /// (delay in ms, priority): whenever the node asks for votes, this peer asks for votes itself
    /// shortly afterwards and then stays silent, so that the node's round is abandoned, not timed out
    #[serde(default)]
    pub react_compete: Option<(u8, i64)>,
}

#[derive(Clone, Debug, PartialEq, Serialize, Deserialize)]
pub struct Case {
    pub peers: Vec<PeerScript>,
    pub quorum: Option<u8>,
    pub own_priority: Option<i64>,
    /// vote responses carrying the id of a node that is not part of the cluster, per vote request seen
    pub foreign_votes: u8,
    /// a node that is not part of the cluster announces itself as leader at this time
    pub foreign_heartbeat_at_ms: Option<u16>,
    pub duration_ms: u16,
}

const TIMEOUT_MS: u64 = 150;

struct Shared {
    /// configured peers that sent a vote response after having seen a vote request of the node
    valid_votes: BTreeSet<String>,
    /// configured peers that sent a heartbeat request (announced themselves as leader)
    announced: BTreeSet<String>,
    vote_requests_seen: u64,
    dup_or_foreign_sent: u64,
    unsolicited_sent: u64,
}

pub(crate) fn orchestrator_binary() -> std::path::PathBuf {
    verif_root().join("harness/target/repo/debug/worterbuch-cluster-orchestrator")
}

pub(crate) fn free_udp_port() -> u16 {
    std::net::UdpSocket::bind("127.0.0.1:0").and_then(|s| s.local_addr()).map(|a| a.port()).unwrap_or(0)
}

pub(crate) struct Orchestrator {
    pub(crate) child: std::process::Child,
}

impl Drop for Orchestrator {
    fn drop(&mut self) {
        // the orchestrator and the stub processes it started share a process group
        unsafe {
            libc::kill(-(self.child.id() as i32), libc::SIGKILL);
        }
        self.child.kill().ok();
        self.child.wait().ok();
    }
}

async fn run_case(case: &Case) -> Result<CaseReport, Failure> {
    thread_local! {
        static DIR: std::path::PathBuf = scratch_dir("C19").join(format!("{:?}", std::thread::current().id()).replace(['(', ')'], ""));
    }
    let dir = crate::persist::fresh_dir(&DIR.with(|d| d.clone()), "case");
    let n_peers = case.peers.len();
    let n_nodes = n_peers + 1;
    let default_quorum = n_nodes / 2 + 1;
    let quorum = match case.quorum {
        Some(q) => (q as usize).clamp(1, n_nodes),
        None => default_quorum,
    };
    // sockets of the scripted peers
    let mut sockets = vec![];
    for _ in 0..n_peers {
        let s = UdpSocket::bind("127.0.0.1:0").await.map_err(|e| Failure::new("c19.socket", "bind", e.to_string()))?;
        sockets.push(Arc::new(s));
    }
    let foreign_socket = Arc::new(UdpSocket::bind("127.0.0.1:0").await.map_err(|e| Failure::new("c19.socket", "bind", e.to_string()))?);
    let node_port = free_udp_port();
    let node_addr: std::net::SocketAddr = format!("127.0.0.1:{node_port}").parse().expect("addr");
    let mut nodes = vec![json!({"nodeId": "n0", "address": "127.0.0.1", "raftPort": node_port, "syncPort": 7000, "priority": case.own_priority})];
    for (i, s) in sockets.iter().enumerate() {
        let port = s.local_addr().map(|a| a.port()).unwrap_or(0);
        nodes.push(json!({"nodeId": format!("p{i}"), "address": "127.0.0.1", "raftPort": port, "syncPort": 7100 + i}));
    }
    let cfg = if case.quorum.is_some() { json!({"nodes": nodes, "quorum": quorum}) } else { json!({"nodes": nodes}) };
    let cfg_path = dir.join("config.yaml");
    std::fs::write(&cfg_path, cfg.to_string()).map_err(|e| Failure::new("c19.fs", "write config", e.to_string()))?;
    let log_path = dir.join("stub.log");
    std::fs::write(&log_path, "").ok();
    let data_dir = dir.join("data");
    std::fs::create_dir_all(&data_dir).ok();

    let shared = Arc::new(Mutex::new(Shared { valid_votes: BTreeSet::new(), announced: BTreeSet::new(), vote_requests_seen: 0, dup_or_foreign_sent: 0, unsolicited_sent: 0 }));

    let mut cmd = Command::new(orchestrator_binary());
    cmd.arg("n0")
        .arg("-c")
        .arg(&cfg_path)
        .arg("-t")
        .arg(TIMEOUT_MS.to_string())
        .arg("-H")
        .arg("30")
        .arg("-w")
        .arg(verif_root().join("stub/worterbuch-stub.sh"))
        .arg("--stats-port")
        .arg(crate::server::free_port().to_string())
        .arg("--data-dir")
        .arg(&data_dir)
        .env("WBVERIF_STUB_LOG", &log_path)
        .env_remove("RUST_LOG")
        .stdin(Stdio::null())
        .stdout(Stdio::null())
        .stderr(Stdio::null());
    unsafe {
        cmd.pre_exec(|| {
            libc::setpgid(0, 0);
            libc::prctl(libc::PR_SET_PDEATHSIG, libc::SIGKILL);
            Ok(())
        });
    }
    let started = Instant::now();
    let child = cmd.spawn().map_err(|e| Failure::new("c19.spawn", "the orchestrator binary starts", e.to_string()).sig(json!({"obs": "timeout"})))?;
    let _orch = Orchestrator { child };

    let vote = |id: &str| json!({"vote": {"response": {"nodeId": id}}}).to_string();
    // unsolicited votes: the node cannot have asked for votes before its minimum election timeout has passed
    for (i, p) in case.peers.iter().enumerate() {
        for _ in 0..p.unsolicited_votes {
            sockets[i].send_to(vote(&format!("p{i}")).as_bytes(), node_addr).await.ok();
            shared.lock().expect("lock").unsolicited_sent += 1;
        }
    }
    let unsolicited_window_ok = started.elapsed() < Duration::from_millis(TIMEOUT_MS - 50);
    if !unsolicited_window_ok {
        // the harness was too slow: these votes may have reached the node after it asked for votes,
        // so they count like votes in answer to a vote request
        let mut sh = shared.lock().expect("lock");
        for (i, p) in case.peers.iter().enumerate() {
            if p.unsolicited_votes > 0 {
                sh.valid_votes.insert(format!("p{i}"));
            }
        }
    }

    // peer tasks
    let mut tasks = vec![];
    for (i, p) in case.peers.iter().enumerate() {
        let sock = sockets[i].clone();
        let shared = shared.clone();
        let p = p.clone();
        let fsock = foreign_socket.clone();
        let foreign_votes = case.foreign_votes;
        let id = format!("p{i}");
        tasks.push(tokio::spawn(async move {
            let mut buf = [0u8; 65507];
            loop {
                let Ok((len, _from)) = sock.recv_from(&mut buf).await else { break };
                let Ok(msg) = serde_json::from_slice::<Value>(&buf[..len]) else { continue };
                if msg["vote"]["request"]["nodeId"] == json!("n0") {
                    shared.lock().expect("lock").vote_requests_seen += 1;
                    if let Some((d, priority)) = p.react_compete {
                        // a competing candidate that never follows up: the node's round ends early
                        let sock = sock.clone();
                        let id = id.clone();
                        tokio::spawn(async move {
                            tokio::time::sleep(Duration::from_millis(d as u64)).await;
                            sock.send_to(json!({"vote": {"request": {"nodeId": id, "priority": priority}}}).to_string().as_bytes(), node_addr).await.ok();
                        });
                    }
                    if p.vote_delay_ms > 0 {
                        tokio::time::sleep(Duration::from_millis(p.vote_delay_ms as u64)).await;
                    }
                    for k in 0..p.votes_per_request {
                        // record before sending: "sent so far" must never lag behind what the node can have received
                        {
                            let mut sh = shared.lock().expect("lock");
                            sh.valid_votes.insert(id.clone());
                            if k > 0 {
                                sh.dup_or_foreign_sent += 1;
                            }
                        }
                        sock.send_to(json!({"vote": {"response": {"nodeId": id}}}).to_string().as_bytes(), node_addr).await.ok();
                    }
                    if i == 0 {
                        for _ in 0..foreign_votes {
                            shared.lock().expect("lock").dup_or_foreign_sent += 1;
                            fsock.send_to(json!({"vote": {"response": {"nodeId": "stranger"}}}).to_string().as_bytes(), node_addr).await.ok();
                        }
                    }
                } else if msg["heartbeat"]["request"]["nodeId"] == json!("n0") && p.ack_heartbeats {
                    sock.send_to(json!({"heartbeat": {"response": {"nodeId": id}}}).to_string().as_bytes(), node_addr).await.ok();
                }
            }
        }));
    }
    // timed actions of competing candidates and the stranger
    for (i, p) in case.peers.iter().enumerate() {
        if let Some(c) = p.compete.clone() {
            let sock = sockets[i].clone();
            let shared = shared.clone();
            let id = format!("p{i}");
            tasks.push(tokio::spawn(async move {
                tokio::time::sleep(Duration::from_millis(c.at_ms as u64)).await;
                sock.send_to(json!({"vote": {"request": {"nodeId": id, "priority": c.priority}}}).to_string().as_bytes(), node_addr).await.ok();
                if let Some(h) = c.heartbeat_after_ms {
                    tokio::time::sleep(Duration::from_millis(h as u64)).await;
                    for _ in 0..20 {
                        shared.lock().expect("lock").announced.insert(id.clone());
                        sock.send_to(json!({"heartbeat": {"request": {"nodeId": id}}}).to_string().as_bytes(), node_addr).await.ok();
                        tokio::time::sleep(Duration::from_millis(30)).await;
                    }
                }
            }));
        }
    }
    if let Some(at) = case.foreign_heartbeat_at_ms {
        let fsock = foreign_socket.clone();
        tasks.push(tokio::spawn(async move {
            tokio::time::sleep(Duration::from_millis(at as u64)).await;
            for _ in 0..10 {
                fsock.send_to(json!({"heartbeat": {"request": {"nodeId": "stranger"}}}).to_string().as_bytes(), node_addr).await.ok();
                tokio::time::sleep(Duration::from_millis(30)).await;
            }
        }));
    }

    // observe the stub's log
    let mut seen_lines = 0usize;
    let mut leader_starts = 0u64;
    let mut follower_starts = 0u64;
    let mut result = Ok(());
    let deadline = Instant::now() + Duration::from_millis(case.duration_ms as u64);
    'watch: while Instant::now() < deadline {
        tokio::time::sleep(Duration::from_millis(3)).await;
        let text = std::fs::read_to_string(&log_path).unwrap_or_default();
        let lines: Vec<&str> = text.lines().collect();
        while seen_lines < lines.len() {
            let line = lines[seen_lines];
            seen_lines += 1;
            let (valid, announced) = {
                let sh = shared.lock().expect("lock");
                (sh.valid_votes.clone(), sh.announced.clone())
            };
            if line.contains("--leader ") || line.ends_with("--leader") {
                leader_starts += 1;
                if valid.len() + 1 < quorum {
                    result = Err(Failure::new(
                        "c19.leader_without_quorum",
                        format!("a server in leader mode is started only with votes of >= {} distinct configured peers (quorum {quorum} of {n_nodes} nodes)", quorum - 1),
                        format!("stub started with '{line}' when only {valid:?} had sent a vote in answer to a vote request"),
                    )
                    .sig(json!({"obs": "c19.leader_without_quorum"})));
                    break 'watch;
                }
            } else if line.contains("--follower") {
                follower_starts += 1;
                let addr = line.split("--leader-address ").nth(1).and_then(|r| r.split_whitespace().next()).unwrap_or("");
                let port: usize = addr.rsplit(':').next().and_then(|p| p.parse().ok()).unwrap_or(0);
                let peer = if port >= 7100 && port < 7100 + n_peers { Some(format!("p{}", port - 7100)) } else { None };
                let ok = peer.as_ref().map(|p| announced.contains(p)).unwrap_or(false) && addr.starts_with("127.0.0.1:");
                if !ok {
                    result = Err(Failure::new(
                        "c19.follows_non_leader",
                        "a server in follower mode is started only towards the sync address of a configured peer that announced itself as leader",
                        format!("stub started with '{line}'; peers that announced themselves: {announced:?}"),
                    )
                    .sig(json!({"obs": "c19.follows_non_leader"})));
                    break 'watch;
                }
            }
        }
    }
    for t in tasks {
        t.abort();
    }
    result?;
    let sh = shared.lock().expect("lock");
    let mut rep = CaseReport::default();
    rep.counters = vec![("leader_starts", leader_starts), ("follower_starts", follower_starts), ("vote_requests_seen", sh.vote_requests_seen)];
    if leader_starts > 0 {
        rep.classes.push("node_became_leader");
    }
    if follower_starts > 0 {
        rep.classes.push("node_became_follower");
    }
    if sh.dup_or_foreign_sent > 0 {
        rep.classes.push("duplicate_or_foreign_votes_sent");
    }
    if sh.unsolicited_sent > 0 && unsolicited_window_ok {
        rep.classes.push("unsolicited_votes_sent");
    }
    if case.peers.iter().any(|p| p.compete.is_some()) {
        rep.classes.push("competing_candidate");
    }
    if sh.vote_requests_seen == 0 && n_peers > 0 && quorum > 1 && follower_starts == 0 {
        rep.classes.push("node_never_asked_for_votes");
    }
    rep.nontrivial = n_nodes >= 3 && (sh.dup_or_foreign_sent > 0 || sh.unsolicited_sent > 0 || case.peers.iter().any(|p| p.compete.is_some())) && (sh.vote_requests_seen > 0 || follower_starts > 0);
    Ok(rep)
}

pub fn check_case(case: &Case, _kfs: &KnownFindings) -> Result<CaseReport, Failure> {
    // Wall clock and a separate process: a stall of the node at the wrong moment can make it read a
    // stale datagram inside a collection window (vote responses carry no round number). Such an
    // accident does not repeat; a safety violation of the election logic does. A violation is
    // therefore reported only when the same script shows it three times in a row.
    let mut first: Option<Failure> = None;
    for attempt in 0..3 {
        match block_on(run_case(case)) {
            Err(f) if f.signature.get("obs").and_then(|o| o.as_str()) == Some("timeout") => return Ok(CaseReport { inconclusive: true, ..Default::default() }),
            Err(f) => {
                if first.is_none() {
                    first = Some(f);
                }
            }
            Ok(rep) => {
                if attempt == 0 {
                    return Ok(rep);
                }
                return Ok(CaseReport { inconclusive: true, counters: vec![("violation_not_reproduced", 1)], ..Default::default() });
            }
        }
    }
    Err(first.expect("three failures"))
}

fn peer_script() -> BoxedStrategy<PeerScript> {
    (
        prop_oneof![3 => Just(0u8), 5 => Just(1u8), 2 => Just(3u8)],
        prop_oneof![6 => Just(0u16), 2 => Just(20u16), 2 => Just(250u16)],
        prop_oneof![6 => Just(0u8), 2 => Just(1u8), 1 => Just(3u8)],
        proptest::option::weighted(
            0.25,
            (0..600u16, prop_oneof![Just(i64::MIN), Just(-5i64), Just(0i64), Just(5i64), Just(i64::MAX)], proptest::option::weighted(0.6, 0..200u16))
                .prop_map(|(at_ms, priority, heartbeat_after_ms)| Compete { at_ms, priority, heartbeat_after_ms }),
        ),
        any::<bool>(),
        proptest::option::weighted(0.2, (prop_oneof![Just(1u8), Just(5u8), Just(25u8)], prop_oneof![Just(-5i64), Just(0i64), Just(5i64), Just(i64::MAX)])),
    )
        .prop_map(|(votes_per_request, vote_delay_ms, unsolicited_votes, compete, ack_heartbeats, react_compete)| PeerScript { votes_per_request, vote_delay_ms, unsolicited_votes, compete, ack_heartbeats, react_compete })
        .boxed()
}

/// structured: 4-7 nodes, some peers vote at once in every round, one peer answers every vote request
/// of the node with a vote request of its own (equal or better priority) and never follows up, so that
/// the node's rounds are abandoned one after the other while votes keep coming in
fn abandoned_rounds_case() -> BoxedStrategy<Case> {
    (3..=6usize, 1..=2usize, prop_oneof![Just(1u8), Just(5u8), Just(25u8)], prop_oneof![Just(0i64), Just(5i64), Just(i64::MAX)], proptest::option::weighted(0.3, Just(0i64)), any::<bool>())
        .prop_map(|(n_peers, voters, delay, priority, own_priority, dup)| {
            let silent = PeerScript { votes_per_request: 0, vote_delay_ms: 0, unsolicited_votes: 0, compete: None, ack_heartbeats: false, react_compete: None };
            let mut peers = vec![silent.clone(); n_peers];
            // never enough distinct voters for the default quorum of n_peers + 1 nodes
            let voters = voters.min((n_peers + 1) / 2 + 1 - 2).max(1);
            for p in peers.iter_mut().take(voters) {
                p.votes_per_request = if dup { 3 } else { 1 };
            }
            peers[n_peers - 1].react_compete = Some((delay, priority));
            Case { peers, quorum: None, own_priority, foreign_votes: 0, foreign_heartbeat_at_ms: None, duration_ms: 1500 }
        })
        .boxed()
}

fn case() -> BoxedStrategy<Case> {
    prop_oneof![4 => free_case(), 1 => abandoned_rounds_case()].boxed()
}

fn free_case() -> BoxedStrategy<Case> {
    (
        proptest::collection::vec(peer_script(), 0..=6),
        proptest::option::weighted(0.4, 1..=7u8),
        proptest::option::weighted(0.5, prop_oneof![Just(-5i64), Just(0i64), Just(5i64)]),
        prop_oneof![5 => Just(0u8), 2 => Just(2u8), 1 => Just(6u8)],
        proptest::option::weighted(0.2, 0..500u16),
        prop_oneof![3 => Just(900u16), 2 => Just(1500u16)],
    )
        .prop_map(|(peers, quorum, own_priority, foreign_votes, foreign_heartbeat_at_ms, duration_ms)| Case { peers, quorum, own_priority, foreign_votes, foreign_heartbeat_at_ms, duration_ms })
        .boxed()
}

pub fn run(cfg: &RunCfg) -> i32 {
    let mut check = Check::new(cfg, "exploration");
    check.assume("black box: the real worterbuch-cluster-orchestrator process (-t 150 -H 30) with a stub server executable that logs its command line, scripted peers on loopback UDP sockets, wall clock; the orchestrator binary is rebuilt from /repo by ./check");
    check.assume("only safety is asserted and only 'sent so far' sets are used (a vote counts as valid for the oracle as soon as a configured peer has sent it in answer to a vote request of the node; votes sent before the node's minimum election timeout can have expired are unsolicited), so slow scheduling of the harness can only make the oracle more permissive (unsolicited votes that the harness could not send in time count as valid); a stall of the node process itself can make it read a stale datagram inside a collection window, which is why a violation is reported only when the same script shows it in three runs out of three (otherwise the case is dropped as inconclusive and counted)");
    let kfs = check.kf.clone();
    if !orchestrator_binary().exists() {
        check.notes.push("orchestrator binary missing: ./check builds it before running this check".to_owned());
        eprintln!("orchestrator binary {} is missing (run through ./check)", orchestrator_binary().display());
        return 2;
    }
    let n = cfg.cases(160, 6_000);
    let (agg, v) = run_prop(cfg, "black-box", n, case, |c: &Case| check_case(c, &kfs));
    check.add_part(
        "black-box",
        "cluster sizes 1..=7 with configured quorum absent or 1..=7 and own priority absent/-5/0/5; per peer a script: silent / one / three (duplicate) votes per vote request, immediate / 20 ms / 250 ms (next round) delay, unsolicited votes right after the start, a competing vote request with priority in {i64::MIN,-5,0,5,i64::MAX} with or without a following heartbeat (at a generated time, or in reaction to every vote request of the node so that its rounds are abandoned instead of timing out), acknowledging the node's heartbeats or not; votes and heartbeats from a node that is not part of the cluster; a fifth of the cases are structured 4-7 node clusters in which fewer than quorum-1 peers vote in every round while one peer keeps the rounds being abandoned; oracle on the stub's command lines: --leader only when >= quorum-1 distinct configured peers had sent a vote in answer to a vote request, --follower only towards the sync address of a configured peer that had announced itself; non-trivial = >= 3 nodes and duplicate/foreign/unsolicited votes or a competing candidate, and the node took part in an election; distinct = case",
        false,
        agg,
    );
    if let Some(v) = v {
        check.violate("black-box", &v.case, v.failure);
    }
    if !check.has_violation() {
        check.assume("rounds part: the voter set of the black-box part is cumulative over rounds, so votes of different peers from different rounds are decided by scripts that leave a whole silent round between two voting rounds; a start in leader mode there is reported only when it occurs in three of three runs of the same script");
        super::c19r::part(&mut check, cfg);
    }
    check.finish()
}

/// The command lines with which the real orchestrator binary starts the server executable in
/// leader mode (single-node cluster) and in follower mode (a scripted peer announces itself as
/// leader), captured through the stub: `(leader, follower)`, each without the executable name.
/// The sync port configured for the node is 7000, the peer's address is 127.0.0.1 with sync port 7100.
/// Used by C12, whose follower and promoted node are started "the way the orchestrator starts them".
pub fn capture_cmdlines() -> Result<(Vec<String>, Vec<String>), String> {
    if !orchestrator_binary().exists() {
        return Err(format!("orchestrator binary {} is missing (run through ./check)", orchestrator_binary().display()));
    }
    let base = scratch_dir("cmdlines");
    let run = |nodes: Vec<Value>, peer: Option<&std::net::UdpSocket>, want: &str| -> Result<Vec<String>, String> {
        let dir = crate::persist::fresh_dir(&base, want.trim_start_matches('-'));
        let cfg_path = dir.join("config.yaml");
        std::fs::write(&cfg_path, json!({"nodes": nodes}).to_string()).map_err(|e| e.to_string())?;
        let log_path = dir.join("stub.log");
        std::fs::write(&log_path, "").ok();
        let data_dir = dir.join("data");
        std::fs::create_dir_all(&data_dir).ok();
        let node_port = nodes[0]["raftPort"].as_u64().unwrap_or(0) as u16;
        let mut cmd = Command::new(orchestrator_binary());
        cmd.arg("n0")
            .arg("-c")
            .arg(&cfg_path)
            .arg("-t")
            .arg(TIMEOUT_MS.to_string())
            .arg("-H")
            .arg("30")
            .arg("-w")
            .arg(verif_root().join("stub/worterbuch-stub.sh"))
            .arg("--stats-port")
            .arg(crate::server::free_port().to_string())
            .arg("--data-dir")
            .arg(&data_dir)
            .env("WBVERIF_STUB_LOG", &log_path)
            .env_remove("RUST_LOG")
            .stdin(Stdio::null())
            .stdout(Stdio::null())
            .stderr(Stdio::null());
        unsafe {
            cmd.pre_exec(|| {
                libc::setpgid(0, 0);
                libc::prctl(libc::PR_SET_PDEATHSIG, libc::SIGKILL);
                Ok(())
            });
        }
        let child = cmd.spawn().map_err(|e| format!("the orchestrator binary does not start: {e}"))?;
        let _orch = Orchestrator { child };
        let started = Instant::now();
        while started.elapsed() < Duration::from_secs(20) {
            if let Some(p) = peer {
                // the peer keeps announcing itself as leader
                p.send_to(json!({"heartbeat": {"request": {"nodeId": "p0"}}}).to_string().as_bytes(), ("127.0.0.1", node_port)).ok();
            }
            std::thread::sleep(Duration::from_millis(20));
            let log = std::fs::read_to_string(&log_path).unwrap_or_default();
            // the first start of the server executable in this scenario, whatever its flags are:
            // a single node can only lead, a node whose only peer announces itself can only follow
            if let Some(line) = log.lines().next()
                && log.ends_with('\n')
            {
                let args: Vec<String> = line.split_whitespace().skip(1).map(|s| s.to_owned()).collect();
                return Ok(args);
            }
        }
        Err(format!("the orchestrator did not start the server executable in the scenario for {want} within 20 s"))
    };
    let node_port = free_udp_port();
    let n0 = json!({"nodeId": "n0", "address": "127.0.0.1", "raftPort": node_port, "syncPort": 7000});
    let leader = run(vec![n0.clone()], None, "--leader")?;
    let peer = std::net::UdpSocket::bind("127.0.0.1:0").map_err(|e| e.to_string())?;
    let peer_port = peer.local_addr().map(|a| a.port()).unwrap_or(0);
    let node_port = free_udp_port();
    let n0 = json!({"nodeId": "n0", "address": "127.0.0.1", "raftPort": node_port, "syncPort": 7000});
    let p0 = json!({"nodeId": "p0", "address": "127.0.0.1", "raftPort": peer_port, "syncPort": 7100});
    let follower = run(vec![n0, p0], Some(&peer), "--follower")?;
    Ok((leader, follower))
}
