//! C02 Compare-and-swap never loses an update.
//!
//! The oracle is independent of the reference model: the harness owns the schedule, brackets
//! every mutating request with its own cget and checks the statement's decision table plus
//! invariants over the recorded history.

use crate::evidence::Check;
use crate::interp::{base_config_cached, err_code, uuid};
use crate::model::{Entry, render_store_json};
use crate::server::Server;
use crate::util::{CaseReport, Failure, RunCfg, block_on, run_enumerated, run_prop};
use proptest::prelude::*;
use serde::{Deserialize, Serialize};
use serde_json::{Value, json};
use std::collections::{BTreeMap, BTreeSet};
use worterbuch::verif::Worterbuch;
use worterbuch_common::{Protocol, StateEvent, WbApi, error::WorterbuchError};

#[derive(Clone, Debug, PartialEq, Serialize, Deserialize)]
pub enum VerFrom {
    LastRead,
    LastReadMinus1,
    LastReadPlus1,
    Zero,
    Abs(u64),
}

#[derive(Clone, Debug, PartialEq, Serialize, Deserialize)]
pub enum Step {
    CGet(u8),
    CSet(u8, VerFrom),
    Set(u8),
    Delete(u8),
    /// like CSet / Set, but writes the value every other "same" write (and the initial state) writes
    CSetSame(u8, VerFrom),
    SetSame(u8),
}

#[derive(Clone, Debug, PartialEq, Serialize, Deserialize)]
pub enum Init {
    Absent,
    Plain,
    Cas(u64),
}

#[derive(Clone, Debug, PartialEq, Serialize, Deserialize)]
pub struct Case {
    /// initial state of the shared keys k0, k1
    pub init: Vec<Init>,
    pub programs: Vec<Vec<Step>>,
    /// which client runs its next request (clients whose program is finished are skipped;
    /// when the schedule is used up the remaining requests run round robin)
    pub schedule: Vec<u8>,
}

const KEYS: [&str; 2] = ["shared/k0", "shared/k1"];

fn cid(c: usize) -> uuid::Uuid {
    uuid(2000 + c as u128)
}

async fn run_case(case: &Case) -> Result<CaseReport, Failure> {
    let mut wb = Worterbuch::with_config(base_config_cached());
    for c in 0..case.programs.len() {
        wb.connected(cid(c), None, &Protocol::UNIX)
            .await
            .map_err(|e| Failure::new("c02.setup", "connect", err_code(&e)))?;
    }
    let mut entries = vec![];
    for (i, init) in case.init.iter().enumerate() {
        match init {
            Init::Absent => {}
            Init::Plain => entries.push((KEYS[i].to_owned(), Entry { value: json!("init"), cas: None })),
            Init::Cas(n) => entries.push((KEYS[i].to_owned(), Entry { value: json!("init"), cas: Some(*n) })),
        }
    }
    if !entries.is_empty() {
        wb.import(&render_store_json(&entries))
            .await
            .map_err(|e| Failure::new("c02.setup", "import", err_code(&e)))?;
    }

    let n = case.programs.len();
    let mut pc = vec![0usize; n];
    let mut last_read: Vec<BTreeMap<usize, u64>> = vec![BTreeMap::new(); n];
    let mut epoch = [0u64; 2];
    // (key, epoch, carried version) -> acknowledged csets
    let mut winners: BTreeMap<(usize, u64, u64), Vec<usize>> = BTreeMap::new();
    let mut losers: BTreeSet<(usize, u64, u64)> = BTreeSet::new();
    let mut observed: Vec<BTreeMap<usize, (u64, u64)>> = vec![BTreeMap::new(); n];
    let mut last_write: [Option<Value>; 2] = [None, None];
    let mut step_no = 0usize;
    let mut seq = 0u64;
    let mut rep = CaseReport::default();
    let mut accepted_csets = 0u64;

    let total: usize = case.programs.iter().map(|p| p.len()).sum();
    let mut order: Vec<usize> = case.schedule.iter().map(|c| *c as usize % n).collect();
    // round robin tail so that every program completes
    for i in 0..total * n {
        order.push(i % n);
    }

    for c in order {
        if pc[c] >= case.programs[c].len() {
            continue;
        }
        let step = case.programs[c][pc[c]].clone();
        pc[c] += 1;
        step_no += 1;
        let fail = |obs: &str, e: String, a: String| Failure::new(obs, e, a).at(step_no);
        let cget = |wb: &Worterbuch, k: usize| -> Option<(Value, u64)> { wb.cget(&KEYS[k].to_owned()).ok() };
        let same = matches!(step, Step::CSetSame(..) | Step::SetSame(_));
        if same {
            rep.counters.push(("writes_of_an_equal_value", 1));
        }
        match step {
            Step::CGet(k) => {
                let k = k as usize % 2;
                let r = cget(&wb, k);
                let ver = r.as_ref().map(|x| x.1).unwrap_or(0);
                last_read[c].insert(k, ver);
                if r.is_some() {
                    if let Some((ep, v)) = observed[c].get(&k)
                        && *ep == epoch[k]
                        && ver < *v
                    {
                        return Err(fail("c02.version_went_backwards", format!("client {c} key {k}: version >= {v}"), format!("{ver}")));
                    }
                    observed[c].insert(k, (epoch[k], ver));
                }
            }
            Step::CSet(k, vf) | Step::CSetSame(k, vf) => {
                let k = k as usize % 2;
                let read = last_read[c].get(&k).copied().unwrap_or(0);
                let carried = match vf {
                    VerFrom::LastRead => read,
                    VerFrom::LastReadMinus1 => read.saturating_sub(1),
                    VerFrom::LastReadPlus1 => read.saturating_add(1),
                    VerFrom::Zero => 0,
                    VerFrom::Abs(v) => v,
                };
                if carried == u64::MAX {
                    rep.excluded.push(("cset_version_u64_max", 1));
                    continue;
                }
                seq += 1;
                let value = if same { json!("init") } else { json!(format!("c{c}-w{seq}")) };
                let before = cget(&wb, k);
                let cur = before.as_ref().map(|x| x.1).unwrap_or(0);
                let res = wb.cset(KEYS[k].to_owned(), value.clone(), carried, cid(c), false).await;
                let after = cget(&wb, k);
                match res {
                    Ok(()) => {
                        if carried != cur {
                            return Err(fail("c02.cset_accepted_with_wrong_version", format!("rejected: current version {cur}, carried {carried}"), "Ok".into()));
                        }
                        if after != Some((value.clone(), carried + 1)) {
                            return Err(fail("c02.version_after_cset", format!("{:?}", (value, carried + 1)), format!("{after:?}")));
                        }
                        winners.entry((k, epoch[k], carried)).or_default().push(c);
                        last_write[k] = Some(value);
                        accepted_csets += 1;
                    }
                    Err(e) => {
                        if carried == cur {
                            return Err(fail("c02.cset_rejected_with_current_version", format!("Ok: current version {cur} == carried"), err_code(&e).into()));
                        }
                        if !matches!(e, WorterbuchError::CasVersionMismatch) {
                            return Err(fail("c02.cset_error_code", "CasVersionMismatch".into(), err_code(&e).into()));
                        }
                        if after != before {
                            return Err(fail("c02.rejected_cset_changed_state", format!("{before:?}"), format!("{after:?}")));
                        }
                        losers.insert((k, epoch[k], carried));
                    }
                }
            }
            Step::Set(k) | Step::SetSame(k) => {
                let k = k as usize % 2;
                seq += 1;
                let value = if same { json!("init") } else { json!(format!("c{c}-w{seq}")) };
                let before = cget(&wb, k);
                let cur = before.as_ref().map(|x| x.1).unwrap_or(0);
                let res = wb.set(KEYS[k].to_owned(), value.clone(), cid(c), false).await;
                let after = cget(&wb, k);
                match res {
                    Ok(()) => {
                        if cur != 0 {
                            return Err(fail("c02.plain_set_replaced_cas_value", format!("Err(Cas): key is CAS protected at version {cur}"), "Ok".into()));
                        }
                        if after != Some((value.clone(), 0)) {
                            return Err(fail("c02.state_after_set", format!("{:?}", (value, 0)), format!("{after:?}")));
                        }
                        last_write[k] = Some(value);
                    }
                    Err(e) => {
                        if cur == 0 {
                            return Err(fail("c02.plain_set_rejected", "Ok".into(), err_code(&e).into()));
                        }
                        if !matches!(e, WorterbuchError::Cas) {
                            return Err(fail("c02.set_error_code", "Cas".into(), err_code(&e).into()));
                        }
                        if after != before {
                            return Err(fail("c02.rejected_set_changed_state", format!("{before:?}"), format!("{after:?}")));
                        }
                    }
                }
            }
            Step::Delete(k) => {
                let k = k as usize % 2;
                let before = cget(&wb, k);
                let res = wb.delete(KEYS[k].to_owned(), cid(c)).await;
                let after = cget(&wb, k);
                match (before.is_some(), res.is_ok()) {
                    (true, true) => {
                        if after.is_some() {
                            return Err(fail("c02.delete", "key absent".into(), format!("{after:?}")));
                        }
                        epoch[k] += 1;
                        last_write[k] = None;
                    }
                    (false, false) => {}
                    (b, r) => return Err(fail("c02.delete_verdict", format!("present={b}"), format!("ok={r}"))),
                }
            }
        }
    }
    // exactly one winner per version of a key (within one life time of the key)
    for ((k, ep, ver), cs) in &winners {
        if cs.len() > 1 {
            return Err(Failure::new("c02.two_winners_for_one_version", "one acknowledged cset per version", format!("key {k} epoch {ep} version {ver}: clients {cs:?}")));
        }
        if losers.contains(&(*k, *ep, *ver)) {
            rep.nontrivial = true;
        }
    }
    // final value reflects the last acknowledged write
    for k in 0..2 {
        let fin = wb.cget(&KEYS[k].to_owned()).ok().map(|x| x.0);
        if let Some(w) = &last_write[k]
            && fin.as_ref() != Some(w)
        {
            return Err(Failure::new("c02.final_value", format!("{w:?}"), format!("{fin:?}")));
        }
    }
    if rep.nontrivial {
        rep.classes.push("competition_for_one_version_one_winner_one_loser");
    }
    if accepted_csets >= 3 {
        rep.classes.push("three_or_more_accepted_csets");
    }
    Ok(rep)
}

pub fn check_case(case: &Case) -> Result<CaseReport, Failure> {
    block_on(run_case(case))
}

fn ver_from() -> BoxedStrategy<VerFrom> {
    prop_oneof![
        12 => Just(VerFrom::LastRead),
        2 => Just(VerFrom::LastReadMinus1),
        2 => Just(VerFrom::LastReadPlus1),
        2 => Just(VerFrom::Zero),
        1 => Just(VerFrom::Abs(1)),
        1 => Just(VerFrom::Abs(u64::MAX - 1)),
        1 => Just(VerFrom::Abs(u64::MAX)),
    ]
    .boxed()
}

fn step() -> BoxedStrategy<Step> {
    let k = || prop_oneof![4 => Just(0u8), 1 => Just(1u8)];
    prop_oneof![
        10 => k().prop_map(Step::CGet),
        9 => (k(), ver_from()).prop_map(|(k, v)| Step::CSet(k, v)),
        3 => (k(), ver_from()).prop_map(|(k, v)| Step::CSetSame(k, v)),
        2 => k().prop_map(Step::Set),
        1 => k().prop_map(Step::SetSame),
        1 => k().prop_map(Step::Delete),
    ]
    .boxed()
}

fn case(max_steps: usize) -> BoxedStrategy<Case> {
    let init = || prop_oneof![3 => Just(Init::Absent), 2 => Just(Init::Plain), 3 => (1..4u64).prop_map(Init::Cas), 1 => Just(Init::Cas(u64::MAX - 3))];
    (
        proptest::collection::vec(init(), 2),
        proptest::collection::vec(proptest::collection::vec(step(), 1..=max_steps), 2..=4),
        proptest::collection::vec(0..4u8, 0..=max_steps * 4),
    )
        .prop_map(|(init, programs, schedule)| Case { init, programs, schedule })
        .boxed()
}

/// all merges of `counts[i]` requests of client i
fn interleavings(counts: &[usize]) -> Vec<Vec<u8>> {
    fn rec(left: &mut Vec<usize>, cur: &mut Vec<u8>, out: &mut Vec<Vec<u8>>) {
        if left.iter().all(|n| *n == 0) {
            out.push(cur.clone());
            return;
        }
        for i in 0..left.len() {
            if left[i] > 0 {
                left[i] -= 1;
                cur.push(i as u8);
                rec(left, cur, out);
                cur.pop();
                left[i] += 1;
            }
        }
    }
    let mut out = vec![];
    rec(&mut counts.to_vec(), &mut vec![], &mut out);
    out
}

fn exhaustive_cases() -> Vec<Case> {
    let vers = [VerFrom::LastRead, VerFrom::LastReadMinus1, VerFrom::LastReadPlus1, VerFrom::Zero];
    let inits = [Init::Absent, Init::Plain, Init::Cas(2)];
    let mut out = vec![];
    // 2 clients x 2 cget/cset cycles
    let il = interleavings(&[4, 4]);
    for init in &inits {
        for a in 0..256usize {
            let v = |i: usize| vers[(a >> (2 * i)) & 3].clone();
            let programs = vec![
                vec![Step::CGet(0), Step::CSet(0, v(0)), Step::CGet(0), Step::CSet(0, v(1))],
                vec![Step::CGet(0), Step::CSet(0, v(2)), Step::CGet(0), Step::CSet(0, v(3))],
            ];
            for s in &il {
                out.push(Case { init: vec![init.clone(), Init::Absent], programs: programs.clone(), schedule: s.clone() });
            }
        }
    }
    // 3 clients x 1 cycle
    let il = interleavings(&[2, 2, 2]);
    for init in &inits {
        for a in 0..64usize {
            let v = |i: usize| vers[(a >> (2 * i)) & 3].clone();
            let programs = vec![
                vec![Step::CGet(0), Step::CSet(0, v(0))],
                vec![Step::CGet(0), Step::CSet(0, v(1))],
                vec![Step::CGet(0), Step::CSet(0, v(2))],
            ];
            for s in &il {
                out.push(Case { init: vec![init.clone(), Init::Absent], programs: programs.clone(), schedule: s.clone() });
            }
        }
    }
    // every case once more with all writers writing one and the same value (the value the key starts with)
    let same: Vec<Case> = out
        .iter()
        .map(|c| {
            let mut c = c.clone();
            for p in c.programs.iter_mut() {
                for s in p.iter_mut() {
                    if let Step::CSet(k, v) = s.clone() {
                        *s = Step::CSetSame(k, v);
                    }
                }
            }
            c
        })
        .collect();
    out.extend(same);
    out
}

#[derive(Clone, Debug, Serialize, Deserialize)]
pub struct Threaded {
    pub tasks: usize,
    pub increments: usize,
}

/// T tasks x N increments through the real server task on a multi-thread runtime
fn threaded(t: &Threaded) -> Result<CaseReport, Failure> {
    let rt = tokio::runtime::Builder::new_multi_thread()
        .worker_threads(4)
        .enable_all()
        .build()
        .map_err(|e| Failure::new("c02.runtime", "runtime", e.to_string()))?;
    let t = t.clone();
    let res = rt.block_on(async move {
        let server = Server::start(base_config_cached()).await.map_err(|e| Failure::new("c02.server", "server starts", e))?;
        let api = server.api.clone();
        let key = "counter".to_owned();
        let (mut rx, _) = api
            .subscribe(uuid(2999), 1, key.clone(), false, true)
            .await
            .map_err(|e| Failure::new("c02.subscribe", "Ok", err_code(&e)))?;
        let mut handles = vec![];
        let conflicts = std::sync::Arc::new(std::sync::atomic::AtomicU64::new(0));
        for i in 0..t.tasks {
            let api = api.clone();
            let key = key.clone();
            let conflicts = conflicts.clone();
            handles.push(tokio::spawn(async move {
                let me = uuid(3000 + i as u128);
                for _ in 0..t.increments {
                    loop {
                        let (v, ver) = match api.cget(key.clone()).await {
                            Ok((v, ver)) => (v.as_u64().unwrap_or(0), ver),
                            Err(WorterbuchError::NoSuchValue(_)) => (0, 0),
                            Err(e) => return Err(format!("cget: {e}")),
                        };
                        match api.cset(key.clone(), json!(v + 1), ver, me).await {
                            Ok(()) => break,
                            Err(WorterbuchError::CasVersionMismatch) => {
                                conflicts.fetch_add(1, std::sync::atomic::Ordering::Relaxed);
                                tokio::task::yield_now().await;
                            }
                            Err(e) => return Err(format!("cset: {e}")),
                        }
                    }
                }
                Ok(())
            }));
        }
        for h in handles {
            match h.await {
                Ok(Ok(())) => {}
                Ok(Err(e)) => return Err(Failure::new("c02.threaded.request", "requests are answered", e)),
                Err(e) => return Err(Failure::new("c02.threaded.task", "task completes", e.to_string())),
            }
        }
        let total = (t.tasks * t.increments) as u64;
        let fin = api.cget(key.clone()).await.map_err(|e| Failure::new("c02.threaded.final", "value", err_code(&e)))?;
        if fin != (json!(total), total) {
            return Err(Failure::new("c02.threaded.lost_update", format!("counter == version == {total}"), format!("{fin:?}")));
        }
        // the subscriber sees 1..=total gap-free and in order
        let mut seen = vec![];
        while seen.len() < total as usize {
            match tokio::time::timeout(std::time::Duration::from_secs(10), rx.recv()).await {
                Ok(Some(StateEvent::Value(v))) => seen.push(v.as_u64().unwrap_or(u64::MAX)),
                Ok(Some(other)) => return Err(Failure::new("c02.threaded.event", "value events", format!("{other:?}"))),
                Ok(None) => break,
                Err(_) => break,
            }
        }
        let expect: Vec<u64> = (1..=total).collect();
        if seen != expect {
            return Err(Failure::new("c02.threaded.subscriber", format!("1..={total} in order"), format!("{seen:?}")));
        }
        server.stop().await.map_err(|e| Failure::new("c02.threaded.server", "clean stop", e))?;
        let c = conflicts.load(std::sync::atomic::Ordering::Relaxed);
        Ok(CaseReport {
            nontrivial: c > 0,
            classes: if c > 0 { vec!["threaded_run_with_version_conflicts"] } else { vec![] },
            counters: vec![("conflicts", c), ("increments", total)],
            ..Default::default()
        })
    });
    rt.shutdown_timeout(std::time::Duration::from_secs(5));
    res
}

/// T client-library connections x N `update()` calls (the library's own cget -> cset retry loop)
fn client_update(t: &Threaded) -> Result<CaseReport, Failure> {
    let rt = tokio::runtime::Builder::new_multi_thread()
        .worker_threads(4)
        .enable_all()
        .build()
        .map_err(|e| Failure::new("c02.runtime", "runtime", e.to_string()))?;
    let t = t.clone();
    let res = rt.block_on(async move {
        let ws = crate::wire::WireServer::start("C02", |_| {}).await.map_err(|e| Failure::new("c02.server", "server starts", e))?;
        let key = "verif/counter".to_owned();
        let observer = super::c20::connect_client(&ws).await?;
        let mut handles = vec![];
        for _ in 0..t.tasks {
            let wb = super::c20::connect_client(&ws).await?;
            let key = key.clone();
            handles.push(tokio::spawn(async move {
                for _ in 0..t.increments {
                    wb.update(key.clone(), || 0u64, |v| *v += 1).await.map_err(|e| format!("update: {e}"))?;
                }
                Ok::<(), String>(())
            }));
        }
        for h in handles {
            match h.await {
                Ok(Ok(())) => {}
                Ok(Err(e)) => return Err(Failure::new("c02.client_update.request", "every update() call returns Ok", e)),
                Err(e) => return Err(Failure::new("c02.client_update.task", "task completes", e.to_string())),
            }
        }
        let total = (t.tasks * t.increments) as u64;
        let fin = observer
            .cget::<u64>(key.clone())
            .await
            .map_err(|e| Failure::new("c02.client_update.final", "value", e.to_string()))?;
        if fin != Some((total, total)) {
            return Err(Failure::new("c02.client_update.lost_update", format!("counter == version == {total}"), format!("{fin:?}")));
        }
        drop(observer);
        ws.stop().await.map_err(|e| Failure::new("c02.client_update.server", "clean stop", e))?;
        Ok(CaseReport {
            nontrivial: t.tasks >= 2,
            classes: vec!["client_library_update_loop"],
            counters: vec![("increments", total)],
            ..Default::default()
        })
    });
    rt.shutdown_timeout(std::time::Duration::from_secs(5));
    res
}

pub fn run(cfg: &RunCfg) -> i32 {
    let mut check = Check::new(cfg, "exploration");
    check.assume("the harness owns the schedule at request granularity on the direct core (one request at a time, as the server task applies them); every mutating request is bracketed by the harness' own cget");
    check.assume("threaded part: whole server in process on a 4-thread runtime, requests go through the public WbApi channel to the single task that owns the core; thread schedules are not seedable, only the task/increment counts are");
    check.assume("carried version u64::MAX is excluded (known finding D17: version overflow)");

    let cases = exhaustive_cases();
    let ncases = cases.len();
    let (agg, v) = run_enumerated(cfg, &cases, check_case);
    check.add_part(
        "exhaustive",
        &format!("{ncases} cases: every interleaving of 2 clients x 2 cget-then-cset cycles (70) and of 3 clients x 1 cycle (90) on one shared key, x every choice of carried version in {{read, read-1, read+1, 0}} per cset, x initial state in {{absent, plain, CAS@2}}, x written values in {{unique per write, all writes equal to the initial value}}; oracle: decision table of the statement per request (accepted iff carried == current, then current+1, rejected requests change nothing), one acknowledged cset per version, no client sees a version go backwards, final value == last acknowledged write; non-trivial = two clients competed for one version, one won and one lost; distinct = case"),
        true,
        agg,
    );
    if let Some(v) = v {
        check.violate("exhaustive", &v.case, v.failure);
    }
    if !check.has_violation() {
        let n = cfg.cases(100_000, 5_000_000);
        let max_steps = cfg.tier.pick(8, 16);
        let (agg, v) = run_prop(cfg, "random", n, || case(max_steps), check_case);
        check.add_part(
            "random",
            "2-4 client programs of cget/cset(read, read-1, read+1, 0, 1, u64 boundary)/set/delete steps (a quarter of the writes write one and the same value, the others a unique one) on two shared keys with a generated interleaving and generated initial states (absent, plain, CAS@1..3, CAS@u64::MAX-3); same oracle",
            false,
            agg,
        );
        if let Some(v) = v {
            check.violate("random", &v.case, v.failure);
        }
    }
    if !check.has_violation() {
        let runs = cfg.cases(30, 600) as usize;
        let mut cases = vec![];
        for i in 0..runs {
            let h = crate::util::mix(cfg.seed, "C02/threaded", i as u64);
            cases.push(Threaded { tasks: 2 + (h % 7) as usize, increments: 5 + ((h >> 8) % 40) as usize });
        }
        let mut agg = crate::util::Agg::default();
        for c in &cases {
            match crate::util::guarded(|| threaded(c)) {
                Ok(rep) => agg.merge_case(crate::util::hash_json(c), &rep, || serde_json::to_value(c).unwrap_or(Value::Null)),
                Err(f) => {
                    agg.evaluations += 1;
                    check.violate("threaded", c, f);
                    break;
                }
            }
        }
        check.add_part(
            "threaded",
            "T in 2..=8 tasks x N in 5..=44 cget->cset retry increments of one counter through the in-process server on a 4-thread runtime; oracle: final counter == final CAS version == T*N, a plain subscriber sees 1..=T*N gap-free and in order; non-trivial = at least one version conflict happened",
            false,
            agg,
        );
    }
    if !check.has_violation() {
        let runs = cfg.cases(8, 300) as usize;
        let mut agg = crate::util::Agg::default();
        for i in 0..runs {
            let h = crate::util::mix(cfg.seed, "C02/client_update", i as u64);
            // at most 3 x 20 = 60 competing increments: fewer than the library's 100 retries, so that giving up is never legitimate
            let c = Threaded { tasks: 2 + (h % 3) as usize, increments: 3 + ((h >> 8) % 18) as usize };
            match crate::util::guarded(|| client_update(&c)) {
                Ok(rep) => agg.merge_case(crate::util::hash_json(&c), &rep, || serde_json::to_value(&c).unwrap_or(Value::Null)),
                // the server could not be reached at all: an accident of the environment
                Err(f) if f.signature.get("obs").and_then(|o| o.as_str()) == Some("timeout") => {
                    agg.merge_case(crate::util::hash_json(&c), &CaseReport { inconclusive: true, ..Default::default() }, || Value::Null)
                }
                Err(f) => {
                    agg.evaluations += 1;
                    check.violate("client_update", &c, f);
                    break;
                }
            }
        }
        check.add_part(
            "client_update",
            "T in 2..=4 worterbuch-client connections (unix socket, real server) x N in 3..=20 calls of the library's update() (its own cget -> cset retry loop) on one counter; oracle: every call returns Ok, final counter == final CAS version == T*N; non-trivial = at least two competing connections; distinct = (T, N)",
            false,
            agg,
        );
    }
    check.finish()
}
