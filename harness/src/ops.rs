//! The operation grammar shared by the history based checks (C01, C03, C05, C06, C07, C08)
//! and the proptest strategies producing it.

use proptest::prelude::*;
use serde::{Deserialize, Serialize};
use serde_json::{Value, json};

/// which version a cset carries
#[derive(Clone, Debug, PartialEq, Serialize, Deserialize)]
pub enum Ver {
    /// the key's current version according to the model (0 if absent/plain)
    Current,
    CurrentMinus1,
    CurrentPlus1,
    Abs(u64),
}

#[derive(Clone, Debug, PartialEq, Serialize, Deserialize)]
pub struct ImportEntry {
    pub key: String,
    pub value: Value,
    pub cas: Option<u64>,
}

/// client index (0..n) into the case's client table; resolved by the interpreter
pub type C = u8;

#[derive(Clone, Debug, PartialEq, Serialize, Deserialize)]
pub enum Op {
    Connect(C),
    Disconnect(C),
    Set { c: C, key: String, value: Value },
    /// internal client (the server itself)
    ISet { key: String, value: Value },
    CSet { c: C, key: String, value: Value, ver: Ver },
    /// write again the value the idx-th existing user key already has
    Reset { c: C, idx: u16 },
    Delete { c: C, key: String },
    PDelete { c: C, pattern: String },
    Import { entries: Vec<ImportEntry> },
    Publish { key: String, value: Value },
    SPubInit { c: C, key: String },
    /// publish on the idx-th stream opened by c (monotone index mapping)
    SPub { c: C, idx: u16, value: Value },
    Get { key: String },
    CGet { key: String },
    PGet { pattern: String },
    Ls { parent: Option<String> },
    PLs { pattern: Option<String> },
    Subscribe { c: C, key: String, unique: bool, live_only: bool },
    PSubscribe { c: C, pattern: String, unique: bool, live_only: bool },
    Unsubscribe { c: C, idx: u16 },
    SubscribeLs { c: C, parent: Option<String> },
    UnsubscribeLs { c: C, idx: u16 },
    Lock { c: C, key: String },
    Acquire { c: C, key: String },
    Release { c: C, key: String },
    /// register grave goods (set of the client's own $SYS entry)
    SetGraveGoods { c: C, patterns: Value },
    SetLastWill { c: C, will: Value },
}

impl Op {
    pub fn kind(&self) -> &'static str {
        match self {
            Op::Connect(_) => "connect",
            Op::Disconnect(_) => "disconnect",
            Op::Set { .. } => "set",
            Op::ISet { .. } => "iset",
            Op::CSet { .. } => "cset",
            Op::Reset { .. } => "reset",
            Op::Delete { .. } => "delete",
            Op::PDelete { .. } => "pdelete",
            Op::Import { .. } => "import",
            Op::Publish { .. } => "publish",
            Op::SPubInit { .. } => "spubinit",
            Op::SPub { .. } => "spub",
            Op::Get { .. } => "get",
            Op::CGet { .. } => "cget",
            Op::PGet { .. } => "pget",
            Op::Ls { .. } => "ls",
            Op::PLs { .. } => "pls",
            Op::Subscribe { .. } => "subscribe",
            Op::PSubscribe { .. } => "psubscribe",
            Op::Unsubscribe { .. } => "unsubscribe",
            Op::SubscribeLs { .. } => "subscribels",
            Op::UnsubscribeLs { .. } => "unsubscribels",
            Op::Lock { .. } => "lock",
            Op::Acquire { .. } => "acquire",
            Op::Release { .. } => "release",
            Op::SetGraveGoods { .. } => "gravegoods",
            Op::SetLastWill { .. } => "lastwill",
        }
    }
}

#[derive(Clone, Debug, PartialEq, Serialize, Deserialize)]
pub struct History {
    /// number of clients that are connected before the first op
    pub preconnected: u8,
    pub ops: Vec<Op>,
}

// ------------------------------------------------------------------------------------------
// strategies

/// ordinary segments: small pool so that keys collide and trees share prefixes
pub fn seg() -> BoxedStrategy<String> {
    prop_oneof![
        30 => Just("a".to_owned()),
        25 => Just("b".to_owned()),
        10 => Just("c".to_owned()),
        4 => Just("".to_owned()),
        2 => Just("ä".to_owned()),
        2 => Just("日本".to_owned()),
        2 => Just("a?b".to_owned()),
        2 => Just("#x".to_owned()),
        1 => Just(" ".to_owned()),
        1 => Just("clients".to_owned()),
        1 => Just("$SYSx".to_owned()),
        1 => Just("x".repeat(200)),
    ]
    .boxed()
}

pub fn key() -> BoxedStrategy<String> {
    prop_oneof![
        4 => proptest::collection::vec(seg(), 1..=1),
        6 => proptest::collection::vec(seg(), 2..=2),
        4 => proptest::collection::vec(seg(), 3..=3),
        1 => proptest::collection::vec(seg(), 4..=6),
    ]
    .prop_map(|v| v.join("/"))
    .boxed()
}

/// valid patterns: a key with segments replaced by `?` and optionally a final `#`
pub fn pattern() -> BoxedStrategy<String> {
    (
        proptest::collection::vec((seg(), 0..10u8), 0..=3),
        0..10u8,
    )
        .prop_map(|(segs, tail)| {
            let mut out: Vec<String> = segs
                .into_iter()
                .map(|(s, w)| if w < 3 { "?".to_owned() } else { s })
                .collect();
            if tail < 5 || out.is_empty() {
                out.push("#".to_owned());
            }
            out.join("/")
        })
        .boxed()
}

/// patterns with a `#` at a non-final position (must be rejected: C04)
pub fn bad_pattern() -> BoxedStrategy<String> {
    (
        proptest::collection::vec(seg(), 0..=2),
        proptest::collection::vec(prop_oneof![seg(), Just("?".to_owned()), Just("#".to_owned())], 1..=2),
    )
        .prop_map(|(mut pre, post)| {
            pre.push("#".to_owned());
            pre.extend(post);
            pre.join("/")
        })
        .boxed()
}

pub fn parent() -> BoxedStrategy<Option<String>> {
    prop_oneof![
        2 => Just(None),
        8 => proptest::collection::vec(seg(), 1..=3).prop_map(|v| Some(v.join("/"))),
        1 => Just(Some("$SYS".to_owned())),
        1 => Just(Some("$SYS/clients".to_owned())),
    ]
    .boxed()
}

pub fn pls_pattern() -> BoxedStrategy<Option<String>> {
    prop_oneof![
        1 => Just(None),
        8 => proptest::collection::vec((seg(), 0..10u8), 1..=3).prop_map(|segs| {
            Some(
                segs.into_iter()
                    .map(|(s, w)| if w < 4 { "?".to_owned() } else { s })
                    .collect::<Vec<_>>()
                    .join("/"),
            )
        }),
    ]
    .boxed()
}

pub fn small_value() -> BoxedStrategy<Value> {
    prop_oneof![
        5 => (0..4i64).prop_map(|n| json!(n)),
        1 => Just(Value::Null),
        1 => Just(json!(true)),
        1 => Just(json!("s")),
        1 => Just(json!([1, "x"])),
        1 => Just(json!({"k": {"n": 1}})),
        1 => Just(json!({"v": 1, "t": {}})),
        1 => Just(json!(1.5)),
    ]
    .boxed()
}

pub fn ver() -> BoxedStrategy<Ver> {
    prop_oneof![
        12 => Just(Ver::Current),
        2 => Just(Ver::CurrentMinus1),
        2 => Just(Ver::CurrentPlus1),
        2 => Just(Ver::Abs(0)),
        1 => Just(Ver::Abs(1)),
        1 => Just(Ver::Abs(u64::MAX - 1)),
    ]
    .boxed()
}

pub fn import_entries() -> BoxedStrategy<Vec<ImportEntry>> {
    proptest::collection::vec(
        (
            key(),
            small_value(),
            prop_oneof![
                6 => Just(None),
                3 => (1..5u64).prop_map(Some),
                1 => Just(Some(u64::MAX - 1)),
            ],
        ),
        1..=4,
    )
    .prop_map(|v| {
        let mut out: Vec<ImportEntry> = vec![];
        for (key, value, cas) in v {
            if !out.iter().any(|e| e.key == key) {
                out.push(ImportEntry { key, value, cas });
            }
        }
        out
    })
    .boxed()
}

pub fn grave_goods_value() -> BoxedStrategy<Value> {
    proptest::collection::vec(prop_oneof![4 => pattern(), 4 => key(), 1 => Just("$SYS/#".to_owned()), 1 => bad_pattern()], 0..=3)
        .prop_map(|v| json!(v))
        .boxed()
}

pub fn last_will_value() -> BoxedStrategy<Value> {
    proptest::collection::vec(
        (
            prop_oneof![8 => key(), 1 => Just("$SYS/evil".to_owned()), 1 => pattern()],
            small_value(),
        ),
        0..=3,
    )
    .prop_map(|v| {
        Value::Array(
            v.into_iter()
                .map(|(k, v)| json!({"key": k, "value": v}))
                .collect(),
        )
    })
    .boxed()
}

/// weights of the op kinds; every property re-weights the same grammar
#[derive(Clone, Debug)]
pub struct Weights {
    pub connect: u32,
    pub disconnect: u32,
    pub set: u32,
    pub iset: u32,
    pub cset: u32,
    pub delete: u32,
    pub pdelete: u32,
    pub import: u32,
    pub publish: u32,
    pub spub: u32,
    pub reads: u32,
    pub subscribe: u32,
    pub psubscribe: u32,
    pub unsubscribe: u32,
    pub subscribe_ls: u32,
    pub unsubscribe_ls: u32,
    pub lock: u32,
    pub acquire: u32,
    pub release: u32,
    pub registrations: u32,
    pub bad_patterns: u32,
    /// keys / patterns aimed at $SYS
    pub sys_targets: u32,
    /// value-preserving rewrites of an existing key
    pub reset: u32,
}

impl Weights {
    pub fn writes() -> Self {
        Weights {
            connect: 2,
            disconnect: 1,
            set: 20,
            iset: 2,
            cset: 14,
            delete: 10,
            pdelete: 8,
            import: 4,
            publish: 2,
            spub: 0,
            reads: 8,
            subscribe: 0,
            psubscribe: 0,
            unsubscribe: 0,
            subscribe_ls: 0,
            unsubscribe_ls: 0,
            lock: 0,
            acquire: 0,
            release: 0,
            registrations: 0,
            bad_patterns: 2,
            sys_targets: 0,
            reset: 3,
        }
    }
}

fn w(n: u32) -> u32 {
    n
}

fn sys_key() -> BoxedStrategy<String> {
    prop_oneof![
        Just("$SYS".to_owned()),
        Just("$SYS/version".to_owned()),
        Just("$SYS/clients".to_owned()),
        Just("$SYS/sentinel/a".to_owned()),
        Just("$SYS/sentinel/b".to_owned()),
        Just("$SYS/".to_owned()),
        Just("$SYS/store/mode".to_owned()),
        (0..3u8).prop_map(|c| format!("$SYS/clients/{}/graveGoods", crate::model::client_name(crate::interp::cid(c)))),
        (0..3u8).prop_map(|c| format!("$SYS/clients/{}/lastWill", crate::model::client_name(crate::interp::cid(c)))),
        (0..3u8).prop_map(|c| format!("$SYS/clients/{}/clientName", crate::model::client_name(crate::interp::cid(c)))),
        (0..3u8).prop_map(|c| format!("$SYS/clients/{}/protocol", crate::model::client_name(crate::interp::cid(c)))),
        (0..3u8).prop_map(|c| format!("$SYS/clients/{}", crate::model::client_name(crate::interp::cid(c)))),
        (0..3u8).prop_map(|c| format!("$SYS/clients/{}/graveGoods/x", crate::model::client_name(crate::interp::cid(c)))),
    ]
    .boxed()
}

fn sys_pattern() -> BoxedStrategy<String> {
    prop_oneof![
        Just("#".to_owned()),
        Just("?/version".to_owned()),
        Just("?/#".to_owned()),
        Just("$SYS/#".to_owned()),
        Just("$SYS/?".to_owned()),
        Just("$SYS/clients/?/graveGoods".to_owned()),
        Just("$SYS/clients/?/lastWill".to_owned()),
        Just("$SYS/clients/#".to_owned()),
        Just("?/clients/?/?".to_owned()),
        Just("?/sentinel/?".to_owned()),
        (0..3u8).prop_map(|c| format!("$SYS/clients/{}/#", crate::model::client_name(crate::interp::cid(c)))),
        (0..3u8).prop_map(|c| format!("$SYS/clients/{}/?", crate::model::client_name(crate::interp::cid(c)))),
    ]
    .boxed()
}

pub fn op(wt: &Weights, nclients: u8) -> BoxedStrategy<Op> {
    let c = || 0..nclients;
    let st = wt.sys_targets;
    let k = move || -> BoxedStrategy<String> {
        if st > 0 {
            prop_oneof![(100 - st.min(90)) => key(), st.min(90) => sys_key()].boxed()
        } else {
            key()
        }
    };
    let bp = wt.bad_patterns;
    let p = move || -> BoxedStrategy<String> {
        let mut alts: Vec<(u32, BoxedStrategy<String>)> = vec![(80, pattern())];
        if bp > 0 {
            alts.push((bp, bad_pattern()));
        }
        if st > 0 {
            alts.push((st, sys_pattern()));
        }
        proptest::strategy::Union::new_weighted(alts).boxed()
    };
    let mut alts: Vec<(u32, BoxedStrategy<Op>)> = vec![];
    let mut add = |weight: u32, s: BoxedStrategy<Op>| {
        if weight > 0 {
            alts.push((w(weight), s));
        }
    };
    add(wt.connect, c().prop_map(Op::Connect).boxed());
    add(wt.disconnect, c().prop_map(Op::Disconnect).boxed());
    add(wt.set, (c(), k(), small_value()).prop_map(|(c, key, value)| Op::Set { c, key, value }).boxed());
    add(
        wt.iset,
        (prop_oneof![3 => key(), 1 => sys_key()], small_value())
            .prop_map(|(key, value)| Op::ISet { key, value })
            .boxed(),
    );
    add(wt.reset, (c(), any::<u16>()).prop_map(|(c, idx)| Op::Reset { c, idx }).boxed());
    add(
        wt.cset,
        (c(), k(), small_value(), ver()).prop_map(|(c, key, value, ver)| Op::CSet { c, key, value, ver }).boxed(),
    );
    add(wt.delete, (c(), k()).prop_map(|(c, key)| Op::Delete { c, key }).boxed());
    add(wt.pdelete, (c(), p()).prop_map(|(c, pattern)| Op::PDelete { c, pattern }).boxed());
    add(wt.import, import_entries().prop_map(|entries| Op::Import { entries }).boxed());
    add(wt.publish, (k(), small_value()).prop_map(|(key, value)| Op::Publish { key, value }).boxed());
    add(
        wt.spub,
        prop_oneof![
            (c(), k()).prop_map(|(c, key)| Op::SPubInit { c, key }),
            (c(), any::<u16>(), small_value()).prop_map(|(c, idx, value)| Op::SPub { c, idx, value }),
        ]
        .boxed(),
    );
    add(
        wt.reads,
        prop_oneof![
            k().prop_map(|key| Op::Get { key }),
            k().prop_map(|key| Op::CGet { key }),
            p().prop_map(|pattern| Op::PGet { pattern }),
            parent().prop_map(|parent| Op::Ls { parent }),
            pls_pattern().prop_map(|pattern| Op::PLs { pattern }),
        ]
        .boxed(),
    );
    add(
        wt.subscribe,
        (c(), k(), any::<bool>(), any::<bool>())
            .prop_map(|(c, key, unique, live_only)| Op::Subscribe { c, key, unique, live_only })
            .boxed(),
    );
    add(
        wt.psubscribe,
        (c(), p(), any::<bool>(), any::<bool>())
            .prop_map(|(c, pattern, unique, live_only)| Op::PSubscribe { c, pattern, unique, live_only })
            .boxed(),
    );
    add(wt.unsubscribe, (c(), any::<u16>()).prop_map(|(c, idx)| Op::Unsubscribe { c, idx }).boxed());
    add(wt.subscribe_ls, (c(), parent()).prop_map(|(c, parent)| Op::SubscribeLs { c, parent }).boxed());
    add(wt.unsubscribe_ls, (c(), any::<u16>()).prop_map(|(c, idx)| Op::UnsubscribeLs { c, idx }).boxed());
    let lk = || prop_oneof![4 => Just("a".to_owned()), 2 => Just("a/b".to_owned()), 1 => Just("b".to_owned())];
    add(wt.lock, (c(), lk()).prop_map(|(c, key)| Op::Lock { c, key }).boxed());
    add(wt.acquire, (c(), lk()).prop_map(|(c, key)| Op::Acquire { c, key }).boxed());
    add(wt.release, (c(), lk()).prop_map(|(c, key)| Op::Release { c, key }).boxed());
    add(
        wt.registrations,
        prop_oneof![
            (c(), grave_goods_value()).prop_map(|(c, patterns)| Op::SetGraveGoods { c, patterns }),
            (c(), last_will_value()).prop_map(|(c, will)| Op::SetLastWill { c, will }),
        ]
        .boxed(),
    );
    proptest::strategy::Union::new_weighted(alts).boxed()
}

pub fn history(wt: Weights, nclients: u8, max_ops: usize) -> BoxedStrategy<History> {
    (1..=nclients, proptest::collection::vec(op(&wt, nclients), 1..=max_ops))
        .prop_map(|(preconnected, ops)| History { preconnected, ops })
        .boxed()
}
