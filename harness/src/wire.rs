//! Wire engine: the whole server in process with a unix-domain-socket endpoint; the harness
//! speaks newline delimited JSON and always keeps reading its sockets.

use crate::interp::base_config_cached;
use crate::server::{Server, with_unix_socket};
use crate::util::scratch_dir;
use serde_json::Value;
use std::path::PathBuf;
use std::sync::atomic::{AtomicU64, Ordering};
use std::time::Duration;
use tokio::io::{AsyncBufReadExt, AsyncRead, AsyncWriteExt, BufReader};
use tokio::net::{TcpStream, UnixStream};
use tokio::sync::mpsc;
use worterbuch::Config;

static SOCK_SEQ: AtomicU64 = AtomicU64::new(0);

pub struct WireServer {
    pub server: Server,
    pub sock: PathBuf,
}

impl WireServer {
    pub async fn start(prop: &str, tweak: impl FnOnce(&mut Config)) -> Result<WireServer, String> {
        let dir = scratch_dir(prop);
        let sock = dir.join(format!("s{}.sock", SOCK_SEQ.fetch_add(1, Ordering::Relaxed)));
        let mut config = with_unix_socket(base_config_cached(), sock.clone());
        tweak(&mut config);
        let server = Server::start(config).await?;
        // wait for the socket to appear (it may still refuse connections for a moment: between bind
        // and listen; the connect functions retry)
        for _ in 0..20_000 {
            if sock.exists() {
                return Ok(WireServer { server, sock });
            }
            tokio::time::sleep(Duration::from_millis(1)).await;
        }
        Err("unix socket did not appear within 20 s".to_owned())
    }

    /// Err = a subsystem of the server crashed (panic). A server that merely needs longer than the
    /// harness' 20 s stop budget (a session task that is still busy when the shutdown is requested) is
    /// stopped by force; no listed property speaks about how fast a server stops, so that is counted
    /// (`forced_shutdowns`) and not an error.
    pub async fn stop(self) -> Result<(), String> {
        let r = self.server.stop().await;
        std::fs::remove_file(&self.sock).ok();
        match r {
            Err(e) if e.contains("ForcedShutdown") || e.contains("did not stop within") => {
                FORCED_SHUTDOWNS.fetch_add(1, Ordering::Relaxed);
                if std::env::var("VERIF_DEBUG").is_ok() {
                    eprintln!("server needed a forced shutdown: {e}");
                }
                Ok(())
            }
            other => other,
        }
    }
}

static FORCED_SHUTDOWNS: AtomicU64 = AtomicU64::new(0);

/// how many in-process servers of this run had to be stopped by force
pub fn forced_shutdowns() -> u64 {
    FORCED_SHUTDOWNS.load(Ordering::Relaxed)
}

enum WriteHalf {
    Unix(tokio::net::unix::OwnedWriteHalf),
    Tcp(tokio::net::tcp::OwnedWriteHalf),
}

pub struct Session {
    write: Option<WriteHalf>,
    rx: mpsc::UnboundedReceiver<Option<String>>,
    reader: tokio::task::JoinHandle<()>,
    pub welcome: Value,
    pub closed: bool,
}

fn spawn_reader(r: impl AsyncRead + Unpin + Send + 'static) -> (mpsc::UnboundedReceiver<Option<String>>, tokio::task::JoinHandle<()>) {
    let (tx, rx) = mpsc::unbounded_channel();
    // reader task: the harness never stops reading (a client that stops reading is behaviour, not input)
    let h = tokio::spawn(async move {
        let mut lines = BufReader::new(r).lines();
        loop {
            match lines.next_line().await {
                Ok(Some(l)) => {
                    if tx.send(Some(l)).is_err() {
                        break;
                    }
                }
                _ => {
                    tx.send(None).ok();
                    break;
                }
            }
        }
    });
    (rx, h)
}

impl Session {
    pub async fn connect(sock: &PathBuf) -> Result<Session, String> {
        // a socket that exists but is not listening yet (or whose backlog is full) refuses the connection: retried
        let mut tries = 0;
        let stream = loop {
            match UnixStream::connect(sock).await {
                Ok(s) => break s,
                Err(e) if tries < 2000 && matches!(e.kind(), std::io::ErrorKind::ConnectionRefused | std::io::ErrorKind::WouldBlock) => {
                    tries += 1;
                    tokio::time::sleep(Duration::from_millis(5)).await;
                }
                Err(e) => return Err(format!("connect: {e}")),
            }
        };
        let (r, w) = stream.into_split();
        let (rx, reader) = spawn_reader(r);
        Session { write: Some(WriteHalf::Unix(w)), rx, reader, welcome: Value::Null, closed: false }.await_welcome().await
    }

    /// `linger0`: closing the socket sends RST instead of FIN (see `reset`)
    pub async fn connect_tcp(port: u16, linger0: bool) -> Result<Session, String> {
        let stream = TcpStream::connect(("127.0.0.1", port)).await.map_err(|e| format!("connect: {e}"))?;
        stream.set_nodelay(true).ok();
        if linger0 {
            socket2::SockRef::from(&stream).set_linger(Some(Duration::ZERO)).map_err(|e| format!("linger: {e}"))?;
        }
        let (r, w) = stream.into_split();
        let (rx, reader) = spawn_reader(r);
        Session { write: Some(WriteHalf::Tcp(w)), rx, reader, welcome: Value::Null, closed: false }.await_welcome().await
    }

    async fn await_welcome(mut self) -> Result<Session, String> {
        match self.recv(Duration::from_secs(10)).await {
            Recv::Msg(v) => {
                self.welcome = v;
                Ok(self)
            }
            other => Err(format!("no welcome message: {other:?}")),
        }
    }

    /// half close: the server reads end-of-file, the harness keeps reading
    pub async fn shutdown_write(&mut self) {
        match self.write.take() {
            Some(WriteHalf::Unix(mut w)) => {
                w.shutdown().await.ok();
            }
            Some(WriteHalf::Tcp(mut w)) => {
                w.shutdown().await.ok();
            }
            None => {}
        }
    }

    /// abortive close: both halves are dropped without a shutdown first; with `linger0` the peer sees a connection reset
    pub fn reset(mut self) {
        self.reader.abort();
        match self.write.take() {
            Some(WriteHalf::Unix(w)) => w.forget(),
            Some(WriteHalf::Tcp(w)) => w.forget(),
            None => {}
        }
    }

    pub fn client_id(&self) -> String {
        self.welcome["welcome"]["clientId"].as_str().unwrap_or("").to_owned()
    }

    pub async fn send_raw(&mut self, bytes: &[u8]) -> bool {
        match self.write.as_mut() {
            Some(WriteHalf::Unix(w)) => w.write_all(bytes).await.is_ok() && w.flush().await.is_ok(),
            Some(WriteHalf::Tcp(w)) => w.write_all(bytes).await.is_ok() && w.flush().await.is_ok(),
            None => false,
        }
    }

    pub async fn send_line(&mut self, line: &str) -> bool {
        let mut b = line.as_bytes().to_vec();
        b.push(b'\n');
        self.send_raw(&b).await
    }

    pub async fn send_json(&mut self, v: &Value) -> bool {
        self.send_line(&v.to_string()).await
    }

    pub async fn recv(&mut self, timeout: Duration) -> Recv {
        if self.closed {
            return Recv::Closed;
        }
        match tokio::time::timeout(timeout, self.rx.recv()).await {
            Ok(Some(Some(line))) => match serde_json::from_str::<Value>(&line) {
                Ok(v) => Recv::Msg(v),
                Err(_) => Recv::Garbage(line),
            },
            Ok(Some(None)) | Ok(None) => {
                self.closed = true;
                Recv::Closed
            }
            Err(_) => Recv::Timeout,
        }
    }

    /// messages that have already arrived, without waiting
    pub fn drain(&mut self) -> Vec<Value> {
        let mut out = vec![];
        while let Ok(m) = self.rx.try_recv() {
            match m {
                Some(l) => {
                    if let Ok(v) = serde_json::from_str::<Value>(&l) {
                        out.push(v);
                    }
                }
                None => self.closed = true,
            }
        }
        out
    }
}

#[derive(Debug)]
pub enum Recv {
    Msg(Value),
    Garbage(String),
    Closed,
    Timeout,
}

/// the (kind, transactionId) of a server message in its JSON form
pub fn kind_and_tid(v: &Value) -> Option<(String, u64)> {
    let o = v.as_object()?;
    let (k, body) = o.iter().next()?;
    let tid = body.get("transactionId").and_then(|t| t.as_u64()).or(if k == "authorized" { Some(0) } else { None })?;
    Some((k.clone(), tid))
}
