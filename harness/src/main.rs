//! wbverif - property-based verification harness for worterbuch.
//!
//!   wbverif check <ID> [--tier quick|thorough] [--seed N] [--scale F] [--workers N]
//!   wbverif replay <ID> <file>
//!   wbverif list

use wbverif::util::{RunCfg, Tier};
use wbverif::{interp, procsrv, props, util};

fn usage() -> ! {
    eprintln!("usage: wbverif check <ID> [--tier quick|thorough] [--seed N] [--scale F] [--workers N]\n       wbverif replay <ID> <file>\n       wbverif list");
    std::process::exit(2);
}

fn main() {
    if std::env::args().nth(1).as_deref() == Some("serve") {
        // child process of the process engine: the server binary's main, configured by its environment
        std::process::exit(procsrv::serve());
    }
    // the code under test reads WORTERBUCH_* variables in Config::new: start from a clean slate
    let vars: Vec<String> = std::env::vars().map(|(k, _)| k).filter(|k| k.starts_with("WORTERBUCH_")).collect();
    for v in vars {
        // SAFETY: single threaded at this point
        unsafe { std::env::remove_var(v) };
    }
    let args: Vec<String> = std::env::args().collect();
    if args.len() < 2 {
        usage();
    }
    match args[1].as_str() {
        "list" => {
            for p in props::ALL {
                println!("{p}");
            }
        }
        "check" => {
            if args.len() < 3 {
                usage();
            }
            let prop = args[2].clone();
            let mut tier = match std::env::var("VERIF_TIER").as_deref() {
                Ok("thorough") => Tier::Thorough,
                _ => Tier::Quick,
            };
            let mut seed: u64 = std::env::var("VERIF_SEED").ok().and_then(|s| s.trim().parse().ok()).unwrap_or(0);
            let mut scale = 1.0;
            let mut workers = std::thread::available_parallelism().map(|n| n.get()).unwrap_or(8).min(16);
            let mut i = 3;
            while i < args.len() {
                match args[i].as_str() {
                    "--tier" => {
                        i += 1;
                        tier = match args.get(i).map(|s| s.as_str()) {
                            Some("quick") => Tier::Quick,
                            Some("thorough") => Tier::Thorough,
                            _ => usage(),
                        };
                    }
                    "--seed" => {
                        i += 1;
                        seed = args.get(i).and_then(|s| s.parse().ok()).unwrap_or_else(|| usage());
                    }
                    "--scale" => {
                        i += 1;
                        scale = args.get(i).and_then(|s| s.parse().ok()).unwrap_or_else(|| usage());
                    }
                    "--workers" => {
                        i += 1;
                        workers = args.get(i).and_then(|s| s.parse().ok()).unwrap_or_else(|| usage());
                    }
                    _ => usage(),
                }
                i += 1;
            }
            let cfg = RunCfg {
                prop: prop.clone(),
                seed,
                tier,
                workers,
                scale,
            };
            interp::init_base_config();
            util::install_panic_hook();
            let code = props::run(&cfg);
            util::remove_scratch(&prop);
            std::process::exit(code);
        }
        "replay" => {
            if args.len() < 4 {
                usage();
            }
            interp::init_base_config();
            util::install_panic_hook();
            let code = props::replay(&args[2], &args[3]);
            std::process::exit(code);
        }
        _ => usage(),
    }
}
