//! Process engine: a real server *process* (`wbverif serve` = the few lines of the server's
//! main.rs compiled into the harness binary), configured through WORTERBUCH_* environment
//! variables, reached over its unix socket, stopped by SIGTERM or SIGKILL.

use std::os::unix::process::CommandExt;
use std::path::{Path, PathBuf};
use std::process::{Child, Command, Stdio};
use std::time::{Duration, Instant};

/// entry point of the child process
pub fn serve() -> i32 {
    let rt = match tokio::runtime::Builder::new_multi_thread().enable_all().build() {
        Ok(rt) => rt,
        Err(_) => return 3,
    };
    rt.block_on(async {
        let args = worterbuch::Args { leader: false, follower: false, sync_port: None, leader_address: None, instance_name: None };
        let config = match worterbuch::Config::new(Some(args)).await {
            Ok(c) => c,
            Err(e) => {
                eprintln!("config: {e}");
                return 3;
            }
        };
        let cfg = config.clone();
        let res = tosub::build_default_root("worterbuch")
            .with_timeout(cfg.shutdown_timeout)
            .start(async |s| worterbuch::run_worterbuch(s, config).await)
            .await;
        match res {
            Ok(_) => 0,
            Err(e) => {
                eprintln!("server terminated: {e:?}");
                4
            }
        }
    })
}

pub struct ServerProc {
    child: Option<Child>,
    pub sock: PathBuf,
}

impl ServerProc {
    pub fn spawn(data_dir: &Path, sock: &Path, mode: &str, extra_env: &[(&str, &str)]) -> Result<ServerProc, String> {
        std::fs::remove_file(sock).ok();
        let exe = std::env::current_exe().map_err(|e| e.to_string())?;
        let mut cmd = Command::new(exe);
        cmd.arg("serve")
            .env("WORTERBUCH_USE_PERSISTENCE", "true")
            .env("WORTERBUCH_PERSISTENCE_MODE", mode)
            .env("WORTERBUCH_DATA_DIR", data_dir)
            .env("WORTERBUCH_UNIX_SOCKET_PATH", sock)
            .env("WORTERBUCH_WS_SERVER_PORT", "0")
            .env("WORTERBUCH_DISABLE_TCP", "true")
            .env("WORTERBUCH_EXTENDED_MONITORING", "false")
            .env("WORTERBUCH_PERSISTENCE_INTERVAL", "3600")
            .env("WORTERBUCH_CHANNEL_BUFFER_SIZE", "10000")
            .env_remove("RUST_LOG")
            .stdin(Stdio::null())
            .stdout(Stdio::null())
            .stderr(Stdio::null());
        for (k, v) in extra_env {
            cmd.env(k, v);
        }
        // the child must not outlive the harness
        unsafe {
            cmd.pre_exec(|| {
                libc::prctl(libc::PR_SET_PDEATHSIG, libc::SIGKILL);
                Ok(())
            });
        }
        let child = cmd.spawn().map_err(|e| format!("spawn: {e}"))?;
        let mut p = ServerProc { child: Some(child), sock: sock.to_owned() };
        let start = Instant::now();
        loop {
            if sock.exists() && std::os::unix::net::UnixStream::connect(sock).is_ok() {
                return Ok(p);
            }
            if let Some(c) = p.child.as_mut()
                && let Ok(Some(st)) = c.try_wait()
            {
                p.child = None;
                return Err(format!("server process exited during start-up: {st}"));
            }
            if start.elapsed() > Duration::from_secs(20) {
                p.kill();
                return Err("server process did not open its socket within 20 s".to_owned());
            }
            std::thread::sleep(Duration::from_millis(1));
        }
    }

    pub fn pid(&self) -> Option<u32> {
        self.child.as_ref().map(|c| c.id())
    }

    /// has the process terminated on its own
    pub fn exited(&mut self) -> bool {
        match self.child.as_mut() {
            Some(c) => matches!(c.try_wait(), Ok(Some(_))),
            None => true,
        }
    }

    /// abrupt stop
    pub fn kill(&mut self) {
        if let Some(mut c) = self.child.take() {
            c.kill().ok();
            c.wait().ok();
        }
    }

    /// clean stop (SIGTERM, the shutdown sequence runs); false if it had to be killed
    pub fn term(&mut self) -> bool {
        if let Some(mut c) = self.child.take() {
            unsafe {
                libc::kill(c.id() as i32, libc::SIGTERM);
            }
            let start = Instant::now();
            loop {
                match c.try_wait() {
                    Ok(Some(_)) => return true,
                    Ok(None) => {}
                    Err(_) => return false,
                }
                if start.elapsed() > Duration::from_secs(20) {
                    c.kill().ok();
                    c.wait().ok();
                    return false;
                }
                std::thread::sleep(Duration::from_millis(1));
            }
        }
        true
    }
}

impl Drop for ServerProc {
    fn drop(&mut self) {
        self.kill();
    }
}
