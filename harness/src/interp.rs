//! Interpreter: runs a generated history against the real core (`worterbuch::verif::Worterbuch`)
//! and against the reference model, comparing every observable after every request.

use crate::evidence::KnownFindings;
use crate::model::*;
use crate::ops::*;
use crate::util::{Failure, map_idx};
use serde_json::{Value, json};
use std::collections::{BTreeMap, BTreeSet};
use tokio::sync::{mpsc, oneshot};
use worterbuch::Config;
use worterbuch::verif::Worterbuch;
use worterbuch_common::error::WorterbuchError;
use worterbuch_common::{PStateEvent, Protocol, StateEvent, ValueEntry};

pub fn cid(c: u8) -> Cid {
    1000 + c as u128
}

pub const OBSERVER: Cid = 999;

pub fn uuid(c: Cid) -> uuid::Uuid {
    uuid::Uuid::from_u128(c)
}

pub fn err_code(e: &WorterbuchError) -> &'static str {
    match e {
        WorterbuchError::IllegalWildcard(_) => "IllegalWildcard",
        WorterbuchError::IllegalMultiWildcard(_) => "IllegalMultiWildcard",
        WorterbuchError::MultiWildcardAtIllegalPosition(_) => "MultiWildcardAtIllegalPosition",
        WorterbuchError::NoSuchValue(_) => "NoSuchValue",
        WorterbuchError::NotSubscribed => "NotSubscribed",
        WorterbuchError::IoError(_, _) => "IoError",
        WorterbuchError::SerDeError(_, _) => "SerDeError",
        WorterbuchError::InvalidServerResponse(_) => "InvalidServerResponse",
        WorterbuchError::Other(_, _) => "Other",
        WorterbuchError::ServerResponse(_) => "ServerResponse",
        WorterbuchError::ProtocolNegotiationFailed(_) => "ProtocolNegotiationFailed",
        WorterbuchError::ReadOnlyKey(_) => "ReadOnlyKey",
        WorterbuchError::AuthorizationRequired(_) => "AuthorizationRequired",
        WorterbuchError::AlreadyAuthorized => "AlreadyAuthorized",
        WorterbuchError::Unauthorized(_) => "Unauthorized",
        WorterbuchError::NoPubStream(_) => "NoPubStream",
        WorterbuchError::NotLeader => "NotLeader",
        WorterbuchError::Cas => "Cas",
        WorterbuchError::CasVersionMismatch => "CasVersionMismatch",
        WorterbuchError::NotImplemented => "NotImplemented",
        WorterbuchError::KeyIsLocked(_) => "KeyIsLocked",
        WorterbuchError::KeyIsNotLocked(_) => "KeyIsNotLocked",
        WorterbuchError::FeatureDisabled(_) => "FeatureDisabled",
        WorterbuchError::ClientIdCollision(_) => "ClientIdCollision",
        WorterbuchError::EmptyKey => "EmptyKey",
    }
}

#[derive(Clone, Debug)]
pub struct Opts {
    pub readback: bool,
    pub events: bool,
    pub ls: bool,
    pub locks: bool,
    pub sys: bool,
    pub fold: bool,
    /// register an always-on catch-all `#` live-only observer subscription
    pub observer: bool,
    /// full read-back every n-th step (1 = every step)
    pub readback_every: usize,
}

impl Opts {
    pub fn all() -> Self {
        Opts {
            readback: true,
            events: true,
            ls: true,
            locks: true,
            sys: false,
            fold: true,
            observer: true,
            readback_every: 1,
        }
    }
}

#[derive(Clone, Debug, Default)]
pub struct HistStats {
    pub steps: u64,
    pub accepted_writes: u64,
    pub rejected_mutations: u64,
    pub branch_emptying_deletes: u64,
    pub import_over_existing: u64,
    pub cas_conflicts: u64,
    pub events_checked: u64,
    pub event_kinds: BTreeSet<&'static str>,
    pub max_events_one_sub: u64,
    /// events received by client subscriptions (the catch-all observer not counted)
    pub sub_events: u64,
    pub sub_event_kinds: BTreeSet<&'static str>,
    pub unique_suppressed: u64,
    pub snapshots: u64,
    pub ls_changes: BTreeMap<(Cid, u64), u64>,
    pub ls_changes_by_delete: u64,
    pub handovers: u64,
    pub lock_rejections: u64,
    pub lock_cancels: u64,
    pub disconnects: u64,
    pub disconnects_with_both_regs: u64,
    pub gg_matched_foreign: u64,
    pub lw_over_cas_or_buried: u64,
    pub sys_wildcard_reach: u64,
    pub sys_foreign_target: u64,
    pub kf: Vec<String>,
    pub excluded: BTreeMap<&'static str, u64>,
    pub abandoned: bool,
    pub skipped_ops: u64,
}

struct PendingLock {
    client: Cid,
    key: String,
    rx: oneshot::Receiver<()>,
}

#[derive(Default)]
struct Fold {
    state: BTreeMap<String, Value>,
    poisoned: bool,
}

pub struct Interp<'a> {
    pub wb: Worterbuch,
    pub m: World,
    o: &'a Opts,
    kfs: &'a KnownFindings,
    prop: &'a str,
    state_rx: BTreeMap<(Cid, u64), mpsc::Receiver<StateEvent>>,
    pstate_rx: BTreeMap<(Cid, u64), mpsc::Receiver<PStateEvent>>,
    ls_rx: BTreeMap<(Cid, u64), mpsc::Receiver<Vec<String>>>,
    dead_state: Vec<((Cid, u64), mpsc::Receiver<StateEvent>)>,
    dead_pstate: Vec<((Cid, u64), mpsc::Receiver<PStateEvent>)>,
    dead_ls: Vec<((Cid, u64), mpsc::Receiver<Vec<String>>)>,
    pending_locks: Vec<PendingLock>,
    next_tid: u64,
    subs_of: BTreeMap<Cid, Vec<u64>>,
    ls_subs_of: BTreeMap<Cid, Vec<u64>>,
    spubs_of: BTreeMap<Cid, Vec<u64>>,
    used_prefixes: BTreeSet<Path>,
    used_keys: BTreeSet<String>,
    folds: BTreeMap<(Cid, u64), Fold>,
    ls_last: BTreeMap<(Cid, u64), BTreeSet<String>>,
    believes: BTreeMap<String, BTreeSet<Cid>>,
    pub stats: HistStats,
    step: usize,
}

enum Flow {
    Continue,
    Abandon,
}

type Step = Result<Flow, Failure>;

pub async fn base_config() -> Config {
    let mut config = Config::new(None).await.expect("config");
    config.ws_endpoint = None;
    config.tcp_endpoint = None;
    config.unix_endpoint = None;
    config.extended_monitoring = false;
    config.use_persistence = false;
    config.channel_buffer_size = 10_000;
    config
}

static BASE_CONFIG: std::sync::OnceLock<Config> = std::sync::OnceLock::new();

/// must be called once (outside of any runtime) before checks run
pub fn init_base_config() {
    let cfg = crate::util::block_on(base_config());
    BASE_CONFIG.set(cfg).ok();
}

pub fn base_config_cached() -> Config {
    BASE_CONFIG.get().expect("init_base_config was called").clone()
}

fn sorted(mut v: Vec<String>) -> Vec<String> {
    v.sort();
    v
}

impl<'a> Interp<'a> {
    pub async fn new(o: &'a Opts, kfs: &'a KnownFindings, prop: &'a str) -> Interp<'a> {
        let wb = Worterbuch::with_config(base_config_cached());
        Interp {
            wb,
            m: World::new(),
            o,
            kfs,
            prop,
            state_rx: BTreeMap::new(),
            pstate_rx: BTreeMap::new(),
            ls_rx: BTreeMap::new(),
            dead_state: vec![],
            dead_pstate: vec![],
            dead_ls: vec![],
            pending_locks: vec![],
            next_tid: 1,
            subs_of: BTreeMap::new(),
            ls_subs_of: BTreeMap::new(),
            spubs_of: BTreeMap::new(),
            used_prefixes: BTreeSet::new(),
            used_keys: BTreeSet::new(),
            folds: BTreeMap::new(),
            ls_last: BTreeMap::new(),
            believes: BTreeMap::new(),
            stats: HistStats::default(),
            step: 0,
        }
    }

    fn fail(&self, obs: &str, expected: impl std::fmt::Debug, actual: impl std::fmt::Debug) -> Failure {
        Failure::new(obs, expected, actual).at(self.step)
    }

    /// a discrepancy that may be a listed known finding: Ok(()) if it is (counted), Err otherwise
    fn known_or_fail(&mut self, f: Failure) -> Result<(), Failure> {
        if let Some(k) = self.kfs.matching(self.prop, &f.signature) {
            self.stats.kf.push(k.id.clone());
            Ok(())
        } else {
            Err(f)
        }
    }

    fn note_key(&mut self, key: &str) {
        if self.used_keys.insert(key.to_owned()) {
            let p = split(key);
            for i in 1..=p.len() {
                self.used_prefixes.insert(p[..i].to_vec());
            }
        }
    }

    fn connected(&self) -> Vec<Cid> {
        self.m.clients.keys().cloned().collect()
    }

    fn is_connected(&self, c: Cid) -> bool {
        self.m.clients.contains_key(&c)
    }

    // ------------------------------------------------------------------------------------
    // the run loop

    pub async fn run(&mut self, h: &History) -> Result<(), Failure> {
        if self.o.observer {
            let (rx, _) = self
                .wb
                .psubscribe(uuid(OBSERVER), 0, "#".to_owned(), false, true)
                .await
                .map_err(|e| self.fail("observer", "Ok", err_code(&e)))?;
            self.pstate_rx.insert((OBSERVER, 0), rx);
            self.m.subs.push(Sub {
                client: OBSERVER,
                tid: 0,
                pattern: parse_pattern("#"),
                is_pattern: true,
                unique: false,
                live_only: true,
            });
        }
        for c in 0..h.preconnected {
            match self.do_op(&Op::Connect(c)).await? {
                Flow::Continue => {}
                Flow::Abandon => {
                    self.stats.abandoned = true;
                    return Ok(());
                }
            }
        }
        for op in &h.ops {
            self.step += 1;
            self.stats.steps += 1;
            match self.do_op(op).await? {
                Flow::Continue => {}
                Flow::Abandon => {
                    self.stats.abandoned = true;
                    return Ok(());
                }
            }
        }
        Ok(())
    }

    async fn do_op(&mut self, op: &Op) -> Step {
        let mut fx = Effects::default();
        let before_children: BTreeMap<(Cid, u64), BTreeSet<String>> = self
            .m
            .ls_subs
            .iter()
            .map(|s| ((s.client, s.tid), self.m.children(&s.parent)))
            .collect();
        let mut ignore_client: Option<Cid> = None;
        let mut actor: Option<Cid> = None;
        let flow = self.exec(op, &mut fx, &mut ignore_client, &mut actor).await?;
        if let Flow::Abandon = flow {
            return Ok(Flow::Abandon);
        }
        if self.o.events {
            if let Flow::Abandon = self.check_value_events(op, &fx, ignore_client)? {
                return Ok(Flow::Abandon);
            }
        } else {
            self.drain_all();
        }
        if self.o.ls {
            if let Flow::Abandon = self.check_ls_events(op, &before_children)? {
                return Ok(Flow::Abandon);
            }
        } else {
            for rx in self.ls_rx.values_mut() {
                while rx.try_recv().is_ok() {}
            }
        }
        if self.o.locks {
            self.check_lock_events(&fx)?;
        } else {
            self.apply_lock_events_unchecked(&fx);
        }
        if self.o.sys && !fx.sys_touched_by_client.is_empty() {
            let by = match op {
                Op::PDelete { .. } => "pdelete",
                Op::Publish { .. } | Op::SPub { .. } => "publish",
                Op::Disconnect(_) => "disconnect",
                other => other.kind(),
            };
            let shape = match op {
                Op::PDelete { pattern, .. } => {
                    if pattern.starts_with("?/") || pattern.starts_with("#") || pattern == "?" {
                        "wildcard in the first segment"
                    } else {
                        "literal first segment"
                    }
                }
                Op::Disconnect(_) => "grave goods / last will applied at session end",
                _ => "any key",
            };
            let f = self
                .fail("sys.touched", "no protected $SYS key touched by a client request", &fx.sys_touched_by_client)
                .sig(json!({"obs": "sys.touched", "by": by, "shape": shape}));
            self.known_or_fail(f)?;
        }
        if self.o.readback && (self.step % self.o.readback_every.max(1) == 0) {
            if let Flow::Abandon = self.readback(op)? {
                return Ok(Flow::Abandon);
            }
        }
        if self.o.fold {
            self.check_folds()?;
        }
        Ok(Flow::Continue)
    }

    fn drain_all(&mut self) {
        for rx in self.state_rx.values_mut() {
            while rx.try_recv().is_ok() {}
        }
        for rx in self.pstate_rx.values_mut() {
            while rx.try_recv().is_ok() {}
        }
    }

    fn resolve_ver(&mut self, key: &str, ver: &Ver) -> Option<u64> {
        let cur = self.m.get(key).map(|e| e.version()).unwrap_or(0);
        let v = match ver {
            Ver::Current => cur,
            Ver::CurrentMinus1 => cur.checked_sub(1)?,
            Ver::CurrentPlus1 => cur.checked_add(1)?,
            Ver::Abs(n) => *n,
        };
        if v == u64::MAX {
            // known finding D17 (version overflow), excluded by construction
            *self.stats.excluded.entry("cset_version_u64_max").or_default() += 1;
            return None;
        }
        Some(v)
    }

    fn key_is_literal(key: &str) -> bool {
        !key.is_empty() && !key.split('/').any(|s| s == "?" || s == "#")
    }

    fn is_own_registration_key(key: &str, c: Cid) -> bool {
        let p = split(key);
        p.len() == 4 && p[0] == SYS && p[1] == "clients" && p[2] == client_name(c) && (p[3] == "graveGoods" || p[3] == "lastWill")
    }

    fn registration_well_typed(key: &str, value: &Value) -> bool {
        let gg = key.ends_with("/graveGoods");
        match value.as_array() {
            None => false,
            Some(a) => a.iter().all(|e| {
                if gg {
                    e.is_string()
                } else {
                    e.as_object()
                        .map(|o| o.get("key").map(|k| k.is_string()).unwrap_or(false) && o.contains_key("value"))
                        .unwrap_or(false)
                }
            }),
        }
    }

    fn pick_client(&mut self, c: C) -> Option<Cid> {
        let id = cid(c);
        if self.is_connected(id) {
            return Some(id);
        }
        // the named client is not connected: let another connected client issue the request
        let conn = self.connected();
        if conn.is_empty() {
            self.stats.skipped_ops += 1;
            None
        } else {
            Some(conn[(c as usize) % conn.len()])
        }
    }

    async fn exec(&mut self, op: &Op, fx: &mut Effects, ignore_client: &mut Option<Cid>, actor: &mut Option<Cid>) -> Step {
        match op {
            Op::Connect(c) => {
                let id = cid(*c);
                if self.is_connected(id) {
                    self.stats.skipped_ops += 1;
                    return Ok(Flow::Continue);
                }
                let res = self.wb.connected(uuid(id), None, &Protocol::UNIX).await;
                if let Err(e) = res {
                    return Err(self.fail("answer.connect", "Ok", err_code(&e)));
                }
                self.m.apply_connect(id, "UNIX", fx);
                self.note_key("$SYS/clients");
                self.note_key(&format!("$SYS/clients/{}/protocol", client_name(id)));
                self.note_key(&format!("$SYS/clients/{}/address", client_name(id)));
            }
            Op::Disconnect(c) => {
                let Some(id) = self.pick_client(*c) else { return Ok(Flow::Continue) };
                *actor = Some(id);
                self.stats.disconnects += 1;
                let gg = self.m.registered_grave_goods(id);
                let lw = self.m.registered_last_will(id);
                if gg.as_ref().map(|g| !g.is_empty()).unwrap_or(false) && lw.as_ref().map(|l| !l.is_empty()).unwrap_or(false) {
                    self.stats.disconnects_with_both_regs += 1;
                }
                if let Some(gg) = &gg {
                    for g in gg {
                        let p = parse_pattern(g);
                        if pattern_valid(&p) && self.m.data.keys().any(|k| k[0] != SYS && self.m.q_matches(&p, k)) {
                            self.stats.gg_matched_foreign += 1;
                        }
                    }
                }
                if let Some(lw) = &lw {
                    for (k, _) in lw {
                        let buried = gg
                            .as_ref()
                            .map(|g| g.iter().any(|g| {
                                let p = parse_pattern(g);
                                pattern_valid(&p) && self.m.q_matches(&p, &split(k)) && self.m.get(k).is_some()
                            }))
                            .unwrap_or(false);
                        if self.m.get(k).map(|e| e.cas.is_some()).unwrap_or(false) || buried {
                            self.stats.lw_over_cas_or_buried += 1;
                        }
                    }
                }
                let res = self.wb.disconnected(uuid(id), None).await;
                if let Err(e) = res {
                    return Err(self.fail("answer.disconnect", "Ok", err_code(&e)));
                }
                // subscriptions of the leaving client: receivers are kept to assert silence afterwards
                let keys: Vec<(Cid, u64)> = self.state_rx.keys().filter(|k| k.0 == id).cloned().collect();
                for k in keys {
                    if let Some(mut rx) = self.state_rx.remove(&k) {
                        while rx.try_recv().is_ok() {}
                        self.dead_state.push((k, rx));
                    }
                    self.folds.remove(&k);
                }
                let keys: Vec<(Cid, u64)> = self.pstate_rx.keys().filter(|k| k.0 == id).cloned().collect();
                for k in keys {
                    if let Some(mut rx) = self.pstate_rx.remove(&k) {
                        while rx.try_recv().is_ok() {}
                        self.dead_pstate.push((k, rx));
                    }
                    self.folds.remove(&k);
                }
                // the session's subscriptions must be gone: ending them once more must fail
                let subs: Vec<u64> = self.subs_of.get(&id).cloned().unwrap_or_default();
                for tid in subs {
                    if self.wb.unsubscribe(uuid(id), tid).await.is_ok() {
                        return Err(self
                            .fail("session_end.subscription_left", "the subscription of the ended session is gone", format!("subscription {tid} was still registered"))
                            .sig(json!({"obs": "session_end.subscription_left"})));
                    }
                }
                let keys: Vec<(Cid, u64)> = self.ls_rx.keys().filter(|k| k.0 == id).cloned().collect();
                for k in keys {
                    // keep the receiver alive while probing, so that a left-over subscription is found
                    if self.wb.unsubscribe_ls(uuid(id), k.1).is_ok() {
                        return Err(self
                            .fail("session_end.ls_subscription_left", "the ls-subscription of the ended session is gone", format!("ls-subscription {} was still registered", k.1))
                            .sig(json!({"obs": "session_end.ls_subscription_left"})));
                    }
                    self.ls_rx.remove(&k);
                    self.ls_last.remove(&k);
                }
                self.subs_of.remove(&id);
                self.ls_subs_of.remove(&id);
                self.spubs_of.remove(&id);
                *ignore_client = Some(id);
                for b in self.believes.values_mut() {
                    b.remove(&id);
                }
                if let Some(lw) = &lw {
                    for (k, _) in lw {
                        self.note_key(k);
                    }
                }
                self.m.apply_disconnect(id, fx);
            }
            Op::Set { c, key, value } => {
                let Some(id) = self.pick_client(*c) else { return Ok(Flow::Continue) };
                *actor = Some(id);
                return self.do_set(id, key, value, fx).await;
            }
            Op::SetGraveGoods { c, patterns } => {
                let Some(id) = self.pick_client(*c) else { return Ok(Flow::Continue) };
                *actor = Some(id);
                let key = format!("$SYS/clients/{}/graveGoods", client_name(id));
                return self.do_set(id, &key, patterns, fx).await;
            }
            Op::SetLastWill { c, will } => {
                let Some(id) = self.pick_client(*c) else { return Ok(Flow::Continue) };
                *actor = Some(id);
                let key = format!("$SYS/clients/{}/lastWill", client_name(id));
                return self.do_set(id, &key, will, fx).await;
            }
            Op::ISet { key, value } => {
                return self.do_set(INTERNAL, key, value, fx).await;
            }
            Op::Reset { c, idx } => {
                // write the value a key already has (plain set for plain values, cset with the
                // current version for CAS values): a value-preserving write by construction
                let Some(id) = self.pick_client(*c) else { return Ok(Flow::Continue) };
                *actor = Some(id);
                let keys: Vec<(String, Entry)> = self
                    .m
                    .data
                    .iter()
                    .filter(|(k, _)| k[0] != SYS)
                    .map(|(k, e)| (join(k), e.clone()))
                    .collect();
                if keys.is_empty() {
                    self.stats.skipped_ops += 1;
                    return Ok(Flow::Continue);
                }
                let (key, entry) = keys[map_idx(*idx, keys.len())].clone();
                match entry.cas {
                    None => return self.do_set(id, &key, &entry.value, fx).await,
                    Some(v) => {
                        if v == u64::MAX {
                            return Ok(Flow::Continue);
                        }
                        let res = self.wb.cset(key.clone(), entry.value.clone(), v, uuid(id), false).await;
                        if let Err(e) = res {
                            return Err(self.fail("verdict.cset", "Ok (current version)", err_code(&e)));
                        }
                        self.stats.accepted_writes += 1;
                        self.m.apply_cset(&key, entry.value.clone(), v, id, fx);
                    }
                }
            }
            Op::CSet { c, key, value, ver } => {
                let Some(id) = self.pick_client(*c) else { return Ok(Flow::Continue) };
                *actor = Some(id);
                let Some(version) = self.resolve_ver(key, ver) else {
                    self.stats.skipped_ops += 1;
                    return Ok(Flow::Continue);
                };
                if Self::is_own_registration_key(key, id) && !Self::registration_well_typed(key, value) {
                    *self.stats.excluded.entry("ill_typed_registration").or_default() += 1;
                    return Ok(Flow::Continue);
                }
                self.note_key(key);
                let res = self.wb.cset(key.clone(), value.clone(), version, uuid(id), false).await;
                let literal = Self::key_is_literal(key);
                if !self.m.key_writable(key, id) && !key.is_empty() {
                    if self.m.protected_from(&split(key), id) {
                        self.stats.sys_foreign_target += 1;
                    }
                    if res.is_ok() {
                        return Err(self.fail("verdict.cset", "Err (protected key)", "Ok").sig(json!({"obs":"verdict","op":"cset","why":"protected"})));
                    }
                    self.stats.rejected_mutations += 1;
                } else if !literal {
                    if res.is_ok() {
                        return Err(self.fail("verdict.cset", "Err (not a literal key)", "Ok"));
                    }
                    self.stats.rejected_mutations += 1;
                } else {
                    match (self.m.cset_verdict(key, version), res) {
                        (CsetVerdict::Ok(_), Ok(())) => {
                            self.stats.accepted_writes += 1;
                            self.m.apply_cset(key, value.clone(), version, id, fx);
                        }
                        (CsetVerdict::VersionMismatch, Err(e)) => {
                            self.stats.rejected_mutations += 1;
                            self.stats.cas_conflicts += 1;
                            if err_code(&e) != "CasVersionMismatch" {
                                return Err(self.fail("verdict.cset.code", "CasVersionMismatch", err_code(&e)));
                            }
                        }
                        (exp, act) => {
                            return Err(self
                                .fail("verdict.cset", exp, act.as_ref().map_err(err_code))
                                .sig(json!({"obs":"verdict","op":"cset"})));
                        }
                    }
                }
            }
            Op::Delete { c, key } => {
                let Some(id) = self.pick_client(*c) else { return Ok(Flow::Continue) };
                *actor = Some(id);
                self.note_key(key);
                let res = self.wb.delete(key.clone(), uuid(id)).await;
                if !self.m.key_writable(key, id) && !key.is_empty() {
                    if self.m.protected_from(&split(key), id) {
                        self.stats.sys_foreign_target += 1;
                    }
                    if res.is_ok() {
                        return Err(self.fail("verdict.delete", "Err (protected key)", "Ok"));
                    }
                    self.stats.rejected_mutations += 1;
                } else if !Self::key_is_literal(key) {
                    if res.is_ok() {
                        return Err(self.fail("verdict.delete", "Err (not a literal key)", "Ok"));
                    }
                    self.stats.rejected_mutations += 1;
                } else {
                    let parent_children_before = self.parent_child_count(key);
                    match (self.m.apply_delete(key, id, fx), res) {
                        (Some(old), Ok(v)) => {
                            self.stats.accepted_writes += 1;
                            if old != v {
                                return Err(self.fail("answer.delete", old, v));
                            }
                            if self.parent_child_count(key) < parent_children_before {
                                self.stats.branch_emptying_deletes += 1;
                            }
                        }
                        (None, Err(e)) => {
                            self.stats.rejected_mutations += 1;
                            if err_code(&e) != "NoSuchValue" {
                                return Err(self.fail("answer.delete.code", "NoSuchValue", err_code(&e)));
                            }
                        }
                        (exp, act) => {
                            return Err(self.fail("answer.delete", exp, act.as_ref().map_err(err_code)));
                        }
                    }
                }
            }
            Op::PDelete { c, pattern } => {
                let Some(id) = self.pick_client(*c) else { return Ok(Flow::Continue) };
                *actor = Some(id);
                let res = self.wb.pdelete(pattern.clone(), uuid(id)).await;
                let pat = parse_pattern(pattern);
                if pattern.is_empty() {
                    if res.is_ok() {
                        return Err(self.fail("verdict.pdelete", "Err (empty pattern)", "Ok"));
                    }
                } else if !self.m.pattern_writable(pattern, id) {
                    self.stats.sys_foreign_target += 1;
                    if res.is_ok() {
                        return Err(self.fail("verdict.pdelete", "Err (protected)", "Ok"));
                    }
                    self.stats.rejected_mutations += 1;
                } else if !pattern_valid(&pat) {
                    if let Ok(v) = &res {
                        let f = self
                            .fail("verdict.pdelete", "Err (# not last)", format!("Ok({} pairs)", v.len()))
                            .sig(json!({"obs":"verdict","op":"pdelete","why":"multiwildcard-not-last"}));
                        return Err(f);
                    }
                    self.stats.rejected_mutations += 1;
                } else {
                    match res {
                        Ok(kvps) => {
                            let before = self.m.len();
                            let reaches_sys = self.m.data.keys().any(|k| k[0] == SYS && self.m.q_matches(&pat, k));
                            if reaches_sys && id != INTERNAL {
                                self.stats.sys_wildcard_reach += 1;
                            }
                            let exp = self.m.apply_pdelete(&pat, id, fx);
                            let mut a: Vec<(String, Value)> = kvps.into_iter().map(|k| (k.key, k.value)).collect();
                            a.sort_by(|x, y| x.0.cmp(&y.0));
                            if a != exp {
                                return Err(self.fail("answer.pdelete", exp, a));
                            }
                            self.stats.accepted_writes += 1;
                            if before - self.m.len() >= 1 {
                                self.stats.branch_emptying_deletes += 1;
                            }
                        }
                        Err(e) => {
                            return Err(self.fail("verdict.pdelete", "Ok", err_code(&e)));
                        }
                    }
                }
            }
            Op::Import { entries } => {
                let mut es: Vec<(String, Entry)> = vec![];
                for e in entries {
                    if !Self::key_is_literal(&e.key) || (e.cas.is_none() && looks_like_cas_tag(&e.value)) {
                        *self.stats.excluded.entry("import_entry_shape").or_default() += 1;
                        continue;
                    }
                    es.push((e.key.clone(), Entry { value: e.value.clone(), cas: e.cas }));
                }
                if es.is_empty() {
                    self.stats.skipped_ops += 1;
                    return Ok(Flow::Continue);
                }
                for (k, _) in &es {
                    self.note_key(k);
                }
                if es.iter().any(|(k, _)| self.m.get(k).is_some()) {
                    self.stats.import_over_existing += 1;
                }
                let json = render_store_json(&es);
                let res = self.wb.import(&json).await;
                match res {
                    Ok(list) => {
                        let exp = self.m.apply_import(&es, fx);
                        let mut exp: Vec<(String, Entry, bool)> = exp;
                        exp.sort_by(|a, b| a.0.cmp(&b.0));
                        let mut act: Vec<(String, Entry, bool)> = list
                            .into_iter()
                            .map(|(k, (ve, ch))| {
                                let e = match ve {
                                    ValueEntry::Plain(v) => Entry { value: v, cas: None },
                                    ValueEntry::Cas(v, n) => Entry { value: v, cas: Some(n) },
                                };
                                (k, e, ch)
                            })
                            .collect();
                        act.sort_by(|a, b| a.0.cmp(&b.0));
                        if exp != act {
                            return Err(self.fail("answer.import", exp, act));
                        }
                        self.stats.accepted_writes += 1;
                    }
                    Err(e) => return Err(self.fail("verdict.import", "Ok", err_code(&e))),
                }
            }
            Op::Publish { key, value } => {
                let res = self.wb.publish(key.clone(), value.clone()).await;
                if res.is_ok() {
                    // publish carries no client id: attribute it to an ordinary client for C08
                    let who = self.connected().first().cloned().unwrap_or(cid(0));
                    self.m.apply_publish(key, value.clone(), who, fx);
                    self.poison_folds_for(key);
                }
            }
            Op::SPubInit { c, key } => {
                let Some(id) = self.pick_client(*c) else { return Ok(Flow::Continue) };
                *actor = Some(id);
                let tid = self.next_tid;
                self.next_tid += 1;
                let res = self.wb.spub_init(tid, key.clone(), uuid(id)).await;
                if !key.is_empty() && !self.m.key_writable(key, id) {
                    self.stats.sys_foreign_target += 1;
                    if res.is_ok() {
                        return Err(self.fail("verdict.spubinit", "Err (protected key)", "Ok"));
                    }
                } else if res.is_ok() {
                    self.spubs_of.entry(id).or_default().push(tid);
                    if let Some(cl) = self.m.clients.get_mut(&id) {
                        cl.spub.insert(tid, key.clone());
                    }
                }
            }
            Op::SPub { c, idx, value } => {
                let Some(id) = self.pick_client(*c) else { return Ok(Flow::Continue) };
                *actor = Some(id);
                let streams = self.spubs_of.get(&id).cloned().unwrap_or_default();
                if streams.is_empty() {
                    let res = self.wb.spub(u64::MAX - 7, value.clone(), uuid(id)).await;
                    match res {
                        Err(e) if err_code(&e) == "NoPubStream" => {}
                        other => return Err(self.fail("answer.spub", "Err(NoPubStream)", other.as_ref().map_err(err_code))),
                    }
                } else {
                    let tid = streams[map_idx(*idx, streams.len())];
                    let key = self.m.clients.get(&id).and_then(|cl| cl.spub.get(&tid).cloned()).unwrap_or_default();
                    let res = self.wb.spub(tid, value.clone(), uuid(id)).await;
                    if res.is_ok() {
                        self.m.apply_publish(&key, value.clone(), id, fx);
                        self.poison_folds_for(&key);
                    }
                }
            }
            Op::Get { key } => {
                let res = self.wb.get(key);
                let exp = self.m.get(key).map(|e| e.value.clone());
                match (exp, res) {
                    (Some(v), Ok(a)) if v == a => {}
                    (None, Err(e)) => {
                        if Self::key_is_literal(key) && err_code(&e) != "NoSuchValue" {
                            return Err(self.fail("answer.get.code", "NoSuchValue", err_code(&e)));
                        }
                    }
                    (exp, act) => return Err(self.fail("answer.get", exp, act.as_ref().map_err(err_code))),
                }
            }
            Op::CGet { key } => {
                let res = self.wb.cget(key);
                let exp = self.m.get(key).map(|e| (e.value.clone(), e.version()));
                match (exp, res) {
                    (Some(v), Ok(a)) if v == a => {}
                    (None, Err(e)) => {
                        if Self::key_is_literal(key) && err_code(&e) != "NoSuchValue" {
                            return Err(self.fail("answer.cget.code", "NoSuchValue", err_code(&e)));
                        }
                    }
                    (exp, act) => return Err(self.fail("answer.cget", exp, act.as_ref().map_err(err_code))),
                }
            }
            Op::PGet { pattern } => {
                let res = self.wb.pget(pattern);
                let pat = parse_pattern(pattern);
                if !pattern_valid(&pat) {
                    if let Ok(v) = &res {
                        return Err(self
                            .fail("verdict.pget", "Err (# not last)", format!("Ok({} pairs)", v.len()))
                            .sig(json!({"obs":"verdict","op":"pget","why":"multiwildcard-not-last"})));
                    }
                } else {
                    match res {
                        Ok(kvps) => {
                            let exp = self.m.pget(&pat);
                            let mut a: Vec<(String, Value)> = kvps.into_iter().map(|k| (k.key, k.value)).collect();
                            a.sort_by(|x, y| x.0.cmp(&y.0));
                            if a != exp {
                                return Err(self.fail("answer.pget", exp, a));
                            }
                        }
                        Err(e) => return Err(self.fail("verdict.pget", "Ok", err_code(&e))),
                    }
                }
            }
            Op::Ls { parent } => {
                self.check_ls_answer(parent)?;
            }
            Op::PLs { pattern } => {
                let res = self.wb.pls(pattern);
                let exp: Vec<String> = match pattern {
                    None => self.m.children(&[]).into_iter().collect(),
                    Some(p) => self.m.pls(&parse_pattern(p)).into_iter().collect(),
                };
                match res {
                    Ok(v) => {
                        let a = sorted(v);
                        if a != exp {
                            return Err(self.fail("answer.pls", exp, a));
                        }
                    }
                    Err(e) => return Err(self.fail("answer.pls", exp, err_code(&e))),
                }
            }
            Op::Subscribe { c, key, unique, live_only } => {
                let Some(id) = self.pick_client(*c) else { return Ok(Flow::Continue) };
                if !Self::key_is_literal(key) {
                    *self.stats.excluded.entry("subscribe_nonliteral_key").or_default() += 1;
                    return Ok(Flow::Continue);
                }
                let tid = self.next_tid;
                self.next_tid += 1;
                let res = self.wb.subscribe(uuid(id), tid, key.clone(), *unique, *live_only).await;
                match res {
                    Ok((mut rx, _)) => {
                        // snapshot
                        let mut got = vec![];
                        while let Ok(e) = rx.try_recv() {
                            got.push(e);
                        }
                        let exp: Vec<StateEvent> = if *live_only {
                            vec![]
                        } else {
                            self.m.get(key).map(|e| vec![StateEvent::Value(e.value.clone())]).unwrap_or_default()
                        };
                        if self.o.events && got != exp {
                            return Err(self.fail("events.snapshot.subscribe", exp, got));
                        }
                        self.stats.snapshots += 1;
                        if !*live_only {
                            let mut f = Fold::default();
                            if let Some(e) = self.m.get(key) {
                                f.state.insert(key.clone(), e.value.clone());
                            }
                            self.folds.insert((id, tid), f);
                        }
                        self.state_rx.insert((id, tid), rx);
                        self.subs_of.entry(id).or_default().push(tid);
                        self.m.subs.push(Sub {
                            client: id,
                            tid,
                            pattern: parse_pattern(key),
                            is_pattern: false,
                            unique: *unique,
                            live_only: *live_only,
                        });
                    }
                    Err(e) => return Err(self.fail("verdict.subscribe", "Ok", err_code(&e))),
                }
            }
            Op::PSubscribe { c, pattern, unique, live_only } => {
                let Some(id) = self.pick_client(*c) else { return Ok(Flow::Continue) };
                let tid = self.next_tid;
                self.next_tid += 1;
                let pat = parse_pattern(pattern);
                let res = self.wb.psubscribe(uuid(id), tid, pattern.clone(), *unique, *live_only).await;
                if !pattern_valid(&pat) {
                    if res.is_ok() {
                        return Err(self
                            .fail("verdict.psubscribe", "Err (# not last)", "Ok")
                            .sig(json!({"obs":"verdict","op":"psubscribe","why":"multiwildcard-not-last"})));
                    }
                    return Ok(Flow::Continue);
                }
                match res {
                    Ok((mut rx, _)) => {
                        let mut got = vec![];
                        while let Ok(e) = rx.try_recv() {
                            got.push(e);
                        }
                        if *live_only {
                            if self.o.events && !got.is_empty() {
                                return Err(self.fail("events.snapshot.psubscribe", "no snapshot (live only)", got));
                            }
                        } else {
                            let exp = self.m.pget(&pat);
                            let ok = got.len() == 1
                                && match &got[0] {
                                    PStateEvent::KeyValuePairs(kvps) => {
                                        let mut a: Vec<(String, Value)> = kvps.iter().map(|k| (k.key.clone(), k.value.clone())).collect();
                                        a.sort_by(|x, y| x.0.cmp(&y.0));
                                        a == exp
                                    }
                                    PStateEvent::Deleted(_) => false,
                                };
                            if self.o.events && !ok {
                                return Err(self.fail("events.snapshot.psubscribe", exp, got));
                            }
                            let mut f = Fold::default();
                            for (k, v) in exp {
                                f.state.insert(k, v);
                            }
                            self.folds.insert((id, tid), f);
                        }
                        self.stats.snapshots += 1;
                        self.pstate_rx.insert((id, tid), rx);
                        self.subs_of.entry(id).or_default().push(tid);
                        self.m.subs.push(Sub {
                            client: id,
                            tid,
                            pattern: pat,
                            is_pattern: true,
                            unique: *unique,
                            live_only: *live_only,
                        });
                    }
                    Err(e) => return Err(self.fail("verdict.psubscribe", "Ok", err_code(&e))),
                }
            }
            Op::Unsubscribe { c, idx } => {
                let Some(id) = self.pick_client(*c) else { return Ok(Flow::Continue) };
                let subs = self.subs_of.get(&id).cloned().unwrap_or_default();
                if subs.is_empty() {
                    let res = self.wb.unsubscribe(uuid(id), u64::MAX - 3).await;
                    match res {
                        Err(e) if err_code(&e) == "NotSubscribed" => {}
                        other => return Err(self.fail("answer.unsubscribe", "Err(NotSubscribed)", other.as_ref().map_err(err_code))),
                    }
                } else {
                    let i = map_idx(*idx, subs.len());
                    let tid = subs[i];
                    let res = self.wb.unsubscribe(uuid(id), tid).await;
                    if let Err(e) = res {
                        return Err(self.fail("answer.unsubscribe", "Ok", err_code(&e)));
                    }
                    self.subs_of.get_mut(&id).expect("present").remove(i);
                    self.m.subs.retain(|s| !(s.client == id && s.tid == tid));
                    self.folds.remove(&(id, tid));
                    if let Some(rx) = self.state_rx.remove(&(id, tid)) {
                        self.dead_state.push(((id, tid), rx));
                    }
                    if let Some(rx) = self.pstate_rx.remove(&(id, tid)) {
                        self.dead_pstate.push(((id, tid), rx));
                    }
                    // a second unsubscribe of the same id must fail
                    let res = self.wb.unsubscribe(uuid(id), tid).await;
                    match res {
                        Err(e) if err_code(&e) == "NotSubscribed" => {}
                        other => return Err(self.fail("answer.unsubscribe.twice", "Err(NotSubscribed)", other.as_ref().map_err(err_code))),
                    }
                }
            }
            Op::SubscribeLs { c, parent } => {
                let Some(id) = self.pick_client(*c) else { return Ok(Flow::Continue) };
                let tid = self.next_tid;
                self.next_tid += 1;
                if let Some(p) = parent {
                    self.note_key(p);
                }
                let res = self.wb.subscribe_ls(uuid(id), tid, parent.clone()).await;
                match res {
                    Ok((mut rx, _)) => {
                        let path: Path = parent.as_ref().map(|p| split(p)).unwrap_or_default();
                        let mut got = vec![];
                        while let Ok(e) = rx.try_recv() {
                            got.push(sorted(e));
                        }
                        let exp: Vec<String> = self.m.children(&path).into_iter().collect();
                        if self.o.ls && got != vec![exp.clone()] {
                            return Err(self.fail("events.ls.initial", vec![exp], got));
                        }
                        self.ls_rx.insert((id, tid), rx);
                        self.ls_last.insert((id, tid), exp.into_iter().collect());
                        self.ls_subs_of.entry(id).or_default().push(tid);
                        self.m.ls_subs.push(LsSub { client: id, tid, parent: path });
                    }
                    Err(e) => return Err(self.fail("verdict.subscribe_ls", "Ok", err_code(&e))),
                }
            }
            Op::UnsubscribeLs { c, idx } => {
                let Some(id) = self.pick_client(*c) else { return Ok(Flow::Continue) };
                let subs = self.ls_subs_of.get(&id).cloned().unwrap_or_default();
                if subs.is_empty() {
                    let res = self.wb.unsubscribe_ls(uuid(id), u64::MAX - 5);
                    match res {
                        Err(e) if err_code(&e) == "NotSubscribed" => {}
                        other => return Err(self.fail("answer.unsubscribe_ls", "Err(NotSubscribed)", other.as_ref().map_err(err_code))),
                    }
                } else {
                    let i = map_idx(*idx, subs.len());
                    let tid = subs[i];
                    let res = self.wb.unsubscribe_ls(uuid(id), tid);
                    if let Err(e) = res {
                        return Err(self.fail("answer.unsubscribe_ls", "Ok", err_code(&e)));
                    }
                    self.ls_subs_of.get_mut(&id).expect("present").remove(i);
                    self.m.ls_subs.retain(|s| !(s.client == id && s.tid == tid));
                    self.ls_last.remove(&(id, tid));
                    if let Some(rx) = self.ls_rx.remove(&(id, tid)) {
                        self.dead_ls.push(((id, tid), rx));
                    }
                }
            }
            Op::Lock { c, key } => {
                let Some(id) = self.pick_client(*c) else { return Ok(Flow::Continue) };
                if self.m.is_waiting(key, id) {
                    // statement is silent on a waiting client calling lock: it is simply refused
                }
                let res = self.wb.lock(key.clone(), uuid(id)).await;
                let exp = self.m.apply_lock(key, id);
                match (exp, &res) {
                    (true, Ok(())) => {
                        self.believes.entry(key.clone()).or_default().insert(id);
                    }
                    (false, Err(e)) if err_code(e) == "KeyIsLocked" => {
                        self.stats.lock_rejections += 1;
                    }
                    _ => {
                        if self.o.locks {
                            return Err(self.fail("lock.answer.lock", if exp { "Ok" } else { "Err(KeyIsLocked)" }, res.as_ref().map_err(err_code)));
                        }
                    }
                }
            }
            Op::Acquire { c, key } => {
                let Some(id) = self.pick_client(*c) else { return Ok(Flow::Continue) };
                let res = self.wb.acquire_lock(key.clone(), uuid(id)).await;
                let granted = self.m.apply_acquire(key, id);
                match res {
                    Ok(mut rx) => {
                        let st = rx.try_recv();
                        match (granted, st) {
                            (true, Ok(())) => {
                                self.believes.entry(key.clone()).or_default().insert(id);
                            }
                            (false, Err(oneshot::error::TryRecvError::Empty)) => {
                                self.pending_locks.push(PendingLock { client: id, key: key.clone(), rx });
                            }
                            (g, st) => {
                                if self.o.locks {
                                    return Err(self.fail("lock.answer.acquire", if g { "granted at once" } else { "pending" }, st));
                                }
                            }
                        }
                    }
                    Err(e) => return Err(self.fail("lock.answer.acquire", "Ok", err_code(&e))),
                }
            }
            Op::Release { c, key } => {
                let Some(id) = self.pick_client(*c) else { return Ok(Flow::Continue) };
                if self.m.is_waiting(key, id) {
                    // the statement does not say what a release by a *waiting* client does
                    *self.stats.excluded.entry("release_by_waiting_client").or_default() += 1;
                    return Ok(Flow::Continue);
                }
                let res = self.wb.release_lock(key.clone(), uuid(id)).await;
                let exp = self.m.apply_release(key, id, fx);
                match (&exp, &res) {
                    (Ok(()), Ok(())) => {
                        if let Some(b) = self.believes.get_mut(key) {
                            b.remove(&id);
                        }
                    }
                    (Err(true), Err(e)) if err_code(e) == "KeyIsLocked" => {
                        self.stats.lock_rejections += 1;
                    }
                    (Err(false), Err(e)) if err_code(e) == "KeyIsNotLocked" => {
                        self.stats.lock_rejections += 1;
                    }
                    _ => {
                        if self.o.locks {
                            return Err(self.fail("lock.answer.release", exp, res.as_ref().map_err(err_code)));
                        }
                    }
                }
            }
        }
        Ok(Flow::Continue)
    }

    fn parent_child_count(&self, key: &str) -> usize {
        let p = split(key);
        self.m.children(&p[..p.len() - 1]).len()
    }

    fn poison_folds_for(&mut self, key: &str) {
        let path = split(key);
        for s in &self.m.subs {
            if matches_doc(&s.pattern, &path)
                && let Some(f) = self.folds.get_mut(&(s.client, s.tid))
            {
                f.poisoned = true;
            }
        }
    }

    async fn do_set(&mut self, id: Cid, key: &str, value: &Value, fx: &mut Effects) -> Step {
        let own_reg = if id == INTERNAL {
            let p = split(key);
            p.len() == 4 && p[0] == SYS && p[1] == "clients" && (p[3] == "graveGoods" || p[3] == "lastWill")
        } else {
            Self::is_own_registration_key(key, id)
        };
        if own_reg && !Self::registration_well_typed(key, value) {
            // known finding D8 (Err but stored): ill-typed registrations are excluded by construction
            *self.stats.excluded.entry("ill_typed_registration").or_default() += 1;
            return Ok(Flow::Continue);
        }
        if own_reg && id != INTERNAL && key.ends_with("/lastWill") {
            // a last will aimed at the leaving client's own $SYS entries: the statement does not say
            // whether clean-up or last will wins; not generated
            let own_prefix = format!("$SYS/clients/{}/", client_name(id));
            let targets_own = value
                .as_array()
                .map(|a| a.iter().any(|e| e.get("key").and_then(|k| k.as_str()).map(|k| k.starts_with(&own_prefix)).unwrap_or(false)))
                .unwrap_or(false);
            if targets_own {
                *self.stats.excluded.entry("last_will_targets_own_sys_entry").or_default() += 1;
                return Ok(Flow::Continue);
            }
        }
        self.note_key(key);
        let res = self.wb.set(key.to_owned(), value.clone(), uuid(id), false).await;
        if !key.is_empty() && !self.m.key_writable(key, id) {
            if self.m.protected_from(&split(key), id) {
                self.stats.sys_foreign_target += 1;
            }
            if res.is_ok() {
                return Err(self
                    .fail("verdict.set", "Err (protected key)", "Ok")
                    .sig(json!({"obs":"verdict","op":"set","why":"protected"})));
            }
            self.stats.rejected_mutations += 1;
            return Ok(Flow::Continue);
        }
        if !Self::key_is_literal(key) {
            if res.is_ok() {
                return Err(self.fail("verdict.set", "Err (not a literal key)", "Ok"));
            }
            self.stats.rejected_mutations += 1;
            return Ok(Flow::Continue);
        }
        match (self.m.set_verdict(key, false), res) {
            (SetVerdict::Ok, Ok(())) => {
                self.stats.accepted_writes += 1;
                self.m.apply_set(key, value.clone(), id, fx);
            }
            (SetVerdict::CasProtected, Err(e)) => {
                self.stats.rejected_mutations += 1;
                if err_code(&e) != "Cas" {
                    return Err(self.fail("verdict.set.code", "Cas", err_code(&e)));
                }
            }
            (exp, act) => {
                return Err(self
                    .fail("verdict.set", exp, act.as_ref().map_err(err_code))
                    .sig(json!({"obs":"verdict","op":"set"})));
            }
        }
        Ok(Flow::Continue)
    }

    fn check_ls_answer(&mut self, parent: &Option<String>) -> Result<(), Failure> {
        let path: Path = parent.as_ref().map(|p| split(p)).unwrap_or_default();
        let res = self.wb.ls(parent);
        let exp = self.m.ls(&path);
        match (exp, res) {
            (Some(e), Ok(a)) => {
                let a = sorted(a);
                let e: Vec<String> = e.into_iter().collect();
                if a != e {
                    return Err(self.fail("answer.ls", e, a).sig(json!({"obs":"ls","parent": parent})));
                }
            }
            (None, Err(e)) => {
                if err_code(&e) != "NoSuchValue" {
                    return Err(self.fail("answer.ls.code", "NoSuchValue", err_code(&e)));
                }
            }
            // root on an empty store: both Ok([]) and "no such value" are accepted
            (Some(e), Err(_)) if path.is_empty() && e.is_empty() => {}
            (exp, act) => {
                return Err(self
                    .fail("answer.ls", exp, act.as_ref().map_err(err_code))
                    .sig(json!({"obs":"ls","parent": parent})));
            }
        }
        Ok(())
    }

    // ------------------------------------------------------------------------------------
    // events

    fn check_value_events(&mut self, op: &Op, fx: &Effects, ignore_client: Option<Cid>) -> Step {
        // actual events per subscription, flattened to (key, value, deleted)
        let mut actual: BTreeMap<(Cid, u64), Vec<(String, Value, bool)>> = BTreeMap::new();
        for (k, rx) in self.state_rx.iter_mut() {
            let key = self
                .m
                .subs
                .iter()
                .find(|s| s.client == k.0 && s.tid == k.1)
                .map(|s| s.pattern.iter().map(|p| match p { PSeg::Lit(l) => l.clone(), PSeg::One => "?".into(), PSeg::Multi => "#".into() }).collect::<Vec<_>>().join("/"))
                .unwrap_or_default();
            while let Ok(e) = rx.try_recv() {
                let (v, d) = match e {
                    StateEvent::Value(v) => (v, false),
                    StateEvent::Deleted(v) => (v, true),
                };
                actual.entry(*k).or_default().push((key.clone(), v, d));
            }
        }
        for (k, rx) in self.pstate_rx.iter_mut() {
            while let Ok(e) = rx.try_recv() {
                let (kvps, d) = match e {
                    PStateEvent::KeyValuePairs(k) => (k, false),
                    PStateEvent::Deleted(k) => (k, true),
                };
                for kvp in kvps {
                    actual.entry(*k).or_default().push((kvp.key, kvp.value, d));
                }
            }
        }
        // silence of ended subscriptions
        for (k, rx) in self.dead_state.iter_mut() {
            if let Ok(e) = rx.try_recv() {
                return Err(Failure::new("events.after_end", "no event after unsubscribe/disconnect", (k, e)).at(self.step));
            }
        }
        for (k, rx) in self.dead_pstate.iter_mut() {
            if let Ok(e) = rx.try_recv() {
                return Err(Failure::new("events.after_end", "no event after unsubscribe/disconnect", (k, e)).at(self.step));
            }
        }
        let mut expected: BTreeMap<(Cid, u64), Vec<&ExpEvent>> = BTreeMap::new();
        for e in &fx.events {
            if Some(e.client) == ignore_client {
                continue;
            }
            expected.entry((e.client, e.tid)).or_default().push(e);
        }
        if let Some(c) = ignore_client {
            actual.retain(|k, _| k.0 != c);
        }
        let subs: BTreeSet<(Cid, u64)> = expected.keys().chain(actual.keys()).cloned().collect();
        for s in subs {
            let exp = expected.remove(&s).unwrap_or_default();
            let act = actual.remove(&s).unwrap_or_default();
            // per key sequences
            let mut keys: Vec<&str> = exp.iter().map(|e| e.key.as_str()).chain(act.iter().map(|a| a.0.as_str())).collect();
            keys.sort();
            keys.dedup();
            for key in keys {
                let e: Vec<&&ExpEvent> = exp.iter().filter(|e| e.key == key).collect();
                let a: Vec<&(String, Value, bool)> = act.iter().filter(|a| a.0 == key).collect();
                let mut ai = 0;
                let mut ok = true;
                for ev in &e {
                    if ai < a.len() && a[ai].1 == ev.value && a[ai].2 == ev.deleted {
                        ai += 1;
                    } else if ev.optional {
                        // not delivered: allowed
                    } else {
                        ok = false;
                        break;
                    }
                }
                if ai != a.len() {
                    ok = false;
                }
                if !ok {
                    let sub = self.m.subs.iter().find(|x| x.client == s.0 && x.tid == s.1).cloned();
                    return Err(self
                        .fail(
                            "events.value",
                            format!("sub {:?} key {:?}: {:?}", sub, key, e.iter().map(|x| (&x.value, x.deleted, x.optional)).collect::<Vec<_>>()),
                            format!("{:?}", a.iter().map(|x| (&x.1, x.2)).collect::<Vec<_>>()),
                        )
                        .sig(json!({"obs":"events.value","op":op.kind()})));
                }
                self.stats.events_checked += a.len() as u64;
                // fold
                if let Some(f) = self.folds.get_mut(&s) {
                    for x in &a {
                        if x.2 {
                            f.state.remove(&x.0);
                        } else {
                            f.state.insert(x.0.clone(), x.1.clone());
                        }
                    }
                }
                for x in &a {
                    self.stats.event_kinds.insert(if x.2 { "deleted" } else { "value" });
                }
            }
            if s.0 != OBSERVER {
                self.stats.max_events_one_sub = self.stats.max_events_one_sub.max(act.len() as u64);
                self.stats.sub_events += act.len() as u64;
                for x in &act {
                    self.stats.sub_event_kinds.insert(if x.2 { "deleted" } else { "value" });
                }
            }
        }
        self.stats.unique_suppressed += fx.unique_suppressed;
        Ok(Flow::Continue)
    }

    fn check_ls_events(&mut self, op: &Op, before: &BTreeMap<(Cid, u64), BTreeSet<String>>) -> Step {
        for (k, rx) in self.dead_ls.iter_mut() {
            if let Ok(e) = rx.try_recv() {
                return Err(Failure::new("events.ls.after_end", "no list after unsubscribe_ls", (k, e)).at(self.step));
            }
        }
        let subs: Vec<LsSub> = self.m.ls_subs.clone();
        for s in subs {
            let k = (s.client, s.tid);
            let Some(rx) = self.ls_rx.get_mut(&k) else { continue };
            let mut got: Vec<Vec<String>> = vec![];
            while let Ok(l) = rx.try_recv() {
                got.push(sorted(l));
            }
            let now = self.m.children(&s.parent);
            let now_v: Vec<String> = now.iter().cloned().collect();
            let was = before.get(&k);
            let changed = was.map(|w| *w != now).unwrap_or(false);
            if let Some(last) = got.last() {
                if *last != now_v {
                    return Err(self
                        .fail("events.ls.last", format!("parent {:?}: last list {:?}", s.parent, now_v), format!("{got:?}"))
                        .sig(json!({"obs":"events.ls.last","op":op.kind()})));
                }
                self.ls_last.insert(k, now.clone());
            }
            if changed {
                *self.stats.ls_changes.entry(k).or_default() += 1;
                if matches!(op, Op::Delete { .. } | Op::PDelete { .. } | Op::Disconnect(_)) {
                    self.stats.ls_changes_by_delete += 1;
                }
                if got.is_empty() {
                    let f = self
                        .fail("events.ls.missing", format!("parent {:?}: a list equal to {:?}", s.parent, now_v), "no list delivered")
                        .sig(json!({"obs":"events.ls.missing","op":op.kind()}));
                    self.known_or_fail(f)?;
                }
            }
        }
        Ok(Flow::Continue)
    }

    fn check_lock_events(&mut self, fx: &Effects) -> Result<(), Failure> {
        // expected status changes
        let mut exp_granted: Vec<(Cid, String, usize)> = vec![];
        let mut exp_cancelled: Vec<(Cid, String, usize)> = vec![];
        for e in &fx.lock_events {
            match e {
                LockEvent::Granted { client, key, n } => exp_granted.push((*client, key.clone(), *n)),
                LockEvent::Cancelled { client, key, n } => exp_cancelled.push((*client, key.clone(), *n)),
            }
        }
        let mut act_granted: BTreeMap<(Cid, String), usize> = BTreeMap::new();
        let mut act_cancelled: BTreeMap<(Cid, String), usize> = BTreeMap::new();
        let mut still = vec![];
        for mut p in self.pending_locks.drain(..) {
            match p.rx.try_recv() {
                Ok(()) => *act_granted.entry((p.client, p.key.clone())).or_default() += 1,
                Err(oneshot::error::TryRecvError::Closed) => *act_cancelled.entry((p.client, p.key.clone())).or_default() += 1,
                Err(oneshot::error::TryRecvError::Empty) => still.push(p),
            }
        }
        self.pending_locks = still;
        let eg: BTreeMap<(Cid, String), usize> = exp_granted.iter().map(|(c, k, n)| ((*c, k.clone()), *n)).collect();
        let ec: BTreeMap<(Cid, String), usize> = exp_cancelled.iter().map(|(c, k, n)| ((*c, k.clone()), *n)).collect();
        if eg != act_granted {
            return Err(self.fail("lock.grant", eg, act_granted));
        }
        if ec != act_cancelled {
            return Err(self.fail("lock.cancel", ec, act_cancelled));
        }
        for ((c, k), _) in act_granted {
            self.believes.entry(k).or_default().insert(c);
            self.stats.handovers += 1;
        }
        self.stats.lock_cancels += act_cancelled.len() as u64;
        // invariant: at most one believer per key, equal to the model's holder
        for (k, b) in &self.believes {
            let holder: BTreeSet<Cid> = self.m.holder(k).into_iter().collect();
            if b.len() > 1 || *b != holder {
                return Err(self.fail("lock.invariant", format!("key {k}: holder {holder:?}"), format!("clients told they hold it: {b:?}")));
            }
        }
        Ok(())
    }

    fn apply_lock_events_unchecked(&mut self, _fx: &Effects) {
        let mut still = vec![];
        for mut p in self.pending_locks.drain(..) {
            if let Err(oneshot::error::TryRecvError::Empty) = p.rx.try_recv() {
                still.push(p);
            }
        }
        self.pending_locks = still;
    }

    // ------------------------------------------------------------------------------------
    // full read-back (C01 / C05 / C08)

    fn readback(&mut self, op: &Op) -> Step {
        // pget #
        let all = match self.wb.pget("#") {
            Ok(v) => v,
            Err(e) => return Err(self.fail("readback.pget", "Ok", err_code(&e))),
        };
        let mut a: Vec<(String, Value)> = all.into_iter().map(|k| (k.key, k.value)).collect();
        a.sort_by(|x, y| x.0.cmp(&y.0));
        let mut exp: Vec<(String, Value)> = self.m.data.iter().map(|(k, e)| (join(k), e.value.clone())).collect();
        exp.sort_by(|x, y| x.0.cmp(&y.0));
        if a != exp {
            let f = self
                .fail("readback.pget", &exp, &a)
                .sig(json!({"obs":"readback.pget","op":op.kind()}));
            return Err(f);
        }
        // len
        let len = self.wb.len();
        if len != self.m.len() {
            return Err(self.fail("readback.len", self.m.len(), len).sig(json!({"obs":"readback.len","op":op.kind()})));
        }
        // cget of every key and of absent keys
        let keys: Vec<String> = self.used_keys.iter().cloned().collect();
        for k in keys {
            if !Self::key_is_literal(&k) {
                continue;
            }
            let exp = self.m.get(&k).map(|e| (e.value.clone(), e.version()));
            let act = self.wb.cget(&k);
            match (exp, act) {
                (Some(e), Ok(a)) if e == a => {}
                (None, Err(e)) if err_code(&e) == "NoSuchValue" => {}
                (e, a) => {
                    return Err(self
                        .fail("readback.cget", format!("{k}: {e:?}"), a.as_ref().map_err(err_code))
                        .sig(json!({"obs":"readback.cget","op":op.kind()})));
                }
            }
        }
        // ls of every prefix ever used and of the root
        if let Err(f) = self.check_ls_answer(&None) {
            return Err(f);
        }
        let prefixes: Vec<Path> = self.used_prefixes.iter().cloned().collect();
        for p in prefixes {
            let parent = Some(join(&p));
            if let Err(mut f) = self.check_ls_answer(&parent) {
                f.obs = "readback.ls".to_owned();
                f.signature = json!({"obs":"readback.ls","op":op.kind()});
                return Err(f);
            }
        }
        Ok(Flow::Continue)
    }

    fn check_folds(&mut self) -> Result<(), Failure> {
        let subs: Vec<Sub> = self.m.subs.clone();
        for s in subs {
            let k = (s.client, s.tid);
            let Some(f) = self.folds.get(&k) else { continue };
            if f.poisoned {
                continue;
            }
            let exp: BTreeMap<String, Value> = self.m.pget(&s.pattern).into_iter().collect();
            if f.state != exp {
                // which keys differ
                let mut differing: Vec<&String> = vec![];
                for key in f.state.keys().chain(exp.keys()) {
                    if f.state.get(key) != exp.get(key) && !differing.contains(&key) {
                        differing.push(key);
                    }
                }
                let only_prefix = differing.iter().all(|d| is_prefix_hash_pair(&s.pattern, &split(d)));
                let fl = self
                    .fail("fold", format!("sub {s:?}: pget = {exp:?}"), format!("snapshot+events = {:?}", f.state))
                    .sig(if only_prefix {
                        json!({"obs":"fold","shape":"prefix/# vs key == prefix: pget and pdelete match, the subscriber is not notified"})
                    } else {
                        json!({"obs":"fold"})
                    });
                self.known_or_fail(fl)?;
                if let Some(f) = self.folds.get_mut(&k) {
                    f.poisoned = true;
                }
            }
        }
        Ok(())
    }
}

/// run one history against a fresh core
pub async fn run_history(h: &History, o: &Opts, kfs: &KnownFindings, prop: &str) -> Result<HistStats, Failure> {
    let mut it = Interp::new(o, kfs, prop).await;
    it.run(h).await?;
    Ok(it.stats)
}
